"""Registry of checks: property -> tests, budgets, evidence texts. Imported by vcheck."""

REAL_DB = {
    "real": ["ethdb/memorydb", "ethdb/leveldb (goleveldb on real files in a scratch dir)", "ethdb/pebble (real files)", "core/rawdb table + nofreezedb wrappers"],
    "stub": [],
}

REG = {
    "C17": {
        "level": "exploration",
        "tests": [
            {"pkg": "./dbsim", "run": "TestC17", "quick": 6400, "thorough": 400000, "chunk": 400},
        ],
        "rule": ("one evaluation = one seeded history (rapid tape, 1..128 ops over 24 prefix-sharing keys) of put/delete/get/has/iterate(prefix,start)/"
                 "batch put/delete/SetPending/GetPending/Write/Reset/Replay(cross-engine)/ValueSize/close-reopen/compact/iterator-held-across-writes "
                 "applied in lock-step to memorydb, leveldb and pebble behind one view (raw, rawdb.NewDatabase, rawdb.NewTable) and to a map+ordered-batch model; "
                 "every observable result is compared with the model after every op plus a final full scan. "
                 "non-trivial = history with >=8 executed ops of >=5 kinds; distinct = distinct trace digest (SHA-256 of the executed op log)."),
        "expect_probes": ["pending_hit", "batch_multi_op_write", "iter_multi_key", "replay", "reopen", "iter_held_across_writes"],
        "components": REAL_DB,
        "assumptions": ["GetPending results are only demanded while pending tracking is enabled on the batch",
                        "a written batch is Reset before further puts (the node's usage); ValueSize is only required to be 0 for an empty batch",
                        "power-loss (lost un-synced suffix) is not modelled here; see C11"],
    },
    "C18": {
        "level": "exploration",
        "tests": [
            {"pkg": "./triesim", "run": "TestC18", "quick": 8000, "thorough": 600000, "chunk": 500},
        ],
        "rule": ("one evaluation = one seeded history over trie.Trie / trie.SecureTrie / state.Database.OpenTrie (drawn mode): a tape of update/delete/get/hash/commit/"
                 "triedb disk-commit/cap/reference/dereference/reopen/prove/corrupt-proof/DeriveSha ops over 25 prefix-sharing keys and 13 values (empty=delete, embedded, 32/33/300 bytes, ~40 kB), "
                 "with faults: restart (fresh trie.Database over the same disk), crash at a drawn prefix of the write log of a Database.Commit, proof corruption (bit flip re-keyed under its new hash, foreign key, dropped node). "
                 "Oracles vs a map model with one snapshot per committed root: root-canonical (3 construction orders), get-model, reopen, proof-sound, proof-corrupt, stacktrie-eq, commit-crash. "
                 "non-trivial = >=8 executed ops of >=4 kinds with >=3 keys held at once; distinct = distinct trace digest."),
        "expect_probes": ["restart", "commit_crash", "proof_bitflip-rekeyed", "absence_proof", "prefix_key_pair", "derive_ge128", "commit_multi_batch"],
        "components": {"real": ["trie.Trie", "trie.SecureTrie", "trie.StackTrie", "trie.Database", "trie proofs", "types.DeriveSha", "state.Database", "ethdb/memorydb as disk"],
                       "stub": ["disk write log (harness wrapper recording Put/Delete/batch groups, used to materialise crash-prefix images)"]},
        "assumptions": ["a proof is a set of nodes addressed by their hash (content-addressed proof db); in-place tampering under the original key is outside the property",
                        "an interrupted or never disk-committed root may be missing after restart but must never serve a wrong value"],
    },
}

S5_COMPONENTS = {
    "real": ["core.Core x3 (prime, region, zone) built by core.NewCore: Slice, HeaderChain, BodyDb, StateProcessor, BlockValidator, worker/Miner, TxPool, append queue",
             "consensus/blake3pow (real hashing at genesis difficulty 3000)", "core/rawdb", "trie", "core/state", "core/vm", "protobuf wire codec for pending headers and blocks",
             "dom<->sub Append / pending-ETX / manifest calls through an in-process CoreBackend adapter"],
    "stub": ["libp2p/gossipsub (harness queue; blocks delivered zone, region, prime)", "hierarchical coordinator (harness picks heads on one line and calls GeneratePendingHeader/MakeFullPendingHeader)",
             "external miner (harness searches nonces from a drawn start)", "node tickers (frozen synctest clock; worker refresh invoked through overlay accessor VerifFillPending)",
             "storage engine: SimDisk wrapper (location, write-op log, injected batch errors) over memorydb", "RPC/stats/telemetry/freezer not started"],
}
S5_RULE = ("one evaluation = one seeded run of a whole node (prime+region+zone cores) inside a synctest bubble: drawn node configuration (address index on/off, miner preference, lockup byte), "
           "optional fixed prologue (3 prime blocks, 4 Quai->Qi conversions, 13 blocks) and a drawn tape of <=60 ops: mine(order wanted, coinbase ledger, nonce start) / Quai transfer / Quai->Qi conversion / "
           "Qi spend (honest, duplicate outpoint in tx, duplicate outpoint in two txs, locked, wrong key, overspend) / rewind head k blocks / switch head to any known block / refresh pending block. "
           "non-trivial = >=3 blocks mined beyond the prologue and >=6 ops; distinct = distinct trace digest (SHA-256 over ops, tx hashes, block hashes and orders). ")

REG.update({
    "C06": {
        "level": "exploration",
        "tests": [{"pkg": "./chainsim", "run": "TestC06", "quick": 480, "thorough": 40000, "chunk": 30}],
        "rule": S5_RULE + "Oracle after every head change (append or reorg): multiset hash of exactly the ut+cl records in the zone db == header UTXORoot, their count == stored UTXO-set size, state opens at the header's EVM/ETX roots.",
        "expect_probes": ["nonempty_utxo_set_checked", "reorg"],
        "components": S5_COMPONENTS,
        "assumptions": ["single slice (expansion 0); KawPow/AuxPoW regime off", "process-determinism across engines/nodes is decided by C10/C01 cross-node comparisons, not here"],
    },
    "C07": {
        "level": "exploration",
        "tests": [{"pkg": "./chainsim", "run": "TestC07", "quick": 400, "thorough": 30000, "chunk": 25},
                  {"pkg": "./chainsim", "run": "TestC07Byz", "quick": 400, "thorough": 30000, "chunk": 25}],
        "rule": S5_RULE + ("Oracle 1 (TestC07): every block the node's worker assembled and the harness sealed on the head it was built on is appended by the same node and becomes its head (state executed). "
                 "Oracle 2 (TestC07Byz): byzantine op - the honest candidate with ONE component changed (gas used, EVM/UTXO/ETX-set root, receipt hash, outbound-ETX hash, tx hash, state used, state size, average/total fees, uncle hash; "
                 "a transaction dropped, swapped, duplicated or added; an outbound ETX dropped or altered) and re-sealed is never appended-and-executed-as-head, and leaves the chain-state key space (ut, cl, address index, canonical mapping, head pointers) byte-identical."),
        "expect_probes": ["reorg", "byz.evm-root", "byz.utxo-root", "byz.drop-last-tx", "byz.swap-txs", "byz.add-foreign-transfer", "byz.drop-outbound-etx", "byz.total-fees+1"],
        "components": S5_COMPONENTS,
        "assumptions": ["the external miner is honest about its coinbase choice (no Qi coinbase before the controller kick-in)", "byzantine candidates are zone-order blocks only"],
    },
    "C10": {
        "level": "exploration",
        "tests": [{"pkg": "./chainsim", "run": "TestC10", "quick": 320, "thorough": 30000, "chunk": 20}],
        "rule": S5_RULE + "Oracle (refinement against a fresh node): after the first two head switches of a run and at its end, the ut / cl / address-index records (index compared as a set per address), canonical number->hash mapping and head pointers of the reorganised node equal those of a second node that was only ever fed the winning branch.",
        "expect_probes": ["reorg"],
        "components": S5_COMPONENTS,
        "assumptions": ["hash-keyed records (trie nodes) that happen to start with a scanned prefix are excluded from the image"],
    },
    "C11": {
        "level": "fault_enumeration",
        "tests": [{"pkg": "./chainsim", "run": "TestC11", "quick": 320, "thorough": 30000, "chunk": 20}],
        "rule": S5_RULE + ("S6: after the prologue all three disks of the node record one global write-op log (every direct put/delete and every batch commit as one atomic group, in issue order across prime/region/zone). "
                 "After the history, the process is crashed at 1..5 drawn prefixes of that log (every other one snapped to -2..+2 writes around a multi-op zone batch, preferring the block batch that mutates UTXO/lockup records); "
                 "the node is restarted on the surviving images of all three disks. Oracles per image: restart returns without error/panic; the reported head has state and its UTXORoot/size equal the stored ut+cl records; "
                 "re-delivering the original chain (with append-queue ticks) appends every block and the final chain state equals the uncrashed node's. Evaluations = histories; crash images are counted in counters."),
        "expect_probes": ["crash_between-writes", "crash_right-after-zone-batch", "crash_right-after-utxo-mutating-block-batch", "history_has_utxo_mutating_batch"],
        "components": S5_COMPONENTS,
        "assumptions": ["batches are atomic (engine contract); a crash loses a suffix of the write log, never reorders it", "crash points are sampled per history, not enumerated exhaustively"],
    },
    "C09": {
        "level": "exploration",
        "tests": [{"pkg": "./chainsim", "run": "TestC09", "quick": 400, "thorough": 30000, "chunk": 25}],
        "rule": S5_RULE + ("Byzantine op: the node's honest zone-order candidate block is copied through the wire codec, ONE parent-derived header field is changed (number, difficulty +-1, gas/state limit, base fee, prime terminus hash/number, "
                 "expansion number, parent entropy / delta / uncled delta, uncled entropy, time before parent, time far in the future, parent hash = grandparent), the block is RE-SEALED with real blake3 work and handed to the node; oracle: never appended-and-executed-as-head, and chain state unchanged. "
                 "Plus on every honestly accepted edge: accumulated entropy strictly increases, recorded parent entropy equals the parent's accumulated entropy, order recomputed later equals the order at mining time."),
        "expect_probes": ["byz.difficulty+1", "byz.number+1", "byz.time-far-future", "byz.parent-entropy+1", "byz.prime-terminus-hash", "byz.base-fee+1", "reorg"],
        "components": S5_COMPONENTS,
        "assumptions": ["share-difficulty (SHA/Scrypt/KawPow) fields are not exercised: the KawPow fork regime is off in this harness", "efficiency score / threshold count / eligible-slices rewrites are observed, not judged: no property names them as derived for zone blocks",
                        "per-node clock skew for the future-block rule is not yet injected (the bubble clock is frozen)"],
    },
    "C08": {
        "level": "exploration",
        "tests": [{"pkg": "./chainsim", "run": "TestC08", "quick": 400, "thorough": 30000, "chunk": 25}],
        "rule": S5_RULE + ("Byzantine op: the honest sealed candidate is changed WITHOUT re-sealing (nonce+1, mix hash, gas used, coinbase, time, a dropped transaction, halved difficulty) - a reused seal on different content - and handed to the node; "
                 "cases whose new hash meets the target by luck (p=1/difficulty) are discarded. Oracle: never accepted. Plus for every accepted block the harness recomputes blake3(mix||seal||nonce) itself and compares with the declared difficulty's target."),
        "expect_probes": ["byz.nonce+1-no-reseal", "byz.seal-reuse-coinbase", "byz.seal-reuse-tx-dropped", "byz.seal-reuse-difficulty-lowered"],
        "components": S5_COMPONENTS,
        "assumptions": ["only the blake3 engine is exercised: progpow/kawpow DAG hashing and the AuxPoW (SHA/Scrypt donor coinbase, merkle branch, template signature) clauses are NOT decided by this check",
                        "difficulty boundary values 0, 1, 2^256 are not generated"],
    },
    "C19": {
        "level": "exploration",
        "tests": [
            {"pkg": "./poolsim", "run": "TestC19", "quick": 1600, "thorough": 160000, "chunk": 100, "race": True},
            {"pkg": "./poolsim", "run": "TestC19Seq", "quick": 800, "thorough": 40000, "chunk": 100},
        ],
        "rule": ("one evaluation = one rapid tape: pool configuration (limits 1..4, PriceBump 10, Lifetime 10 s, balances, gas limit, base fee, journal, NoLocals), a workload of 1..5 rounds of <=3 ops for each of 2..4 client goroutines "
                 "(add-local / add-remote / add-remotes / add-locals / set-gas-price / head(+1..2 blocks from pool pending or foreign txs, balance drain/top-up, gas-limit/base-fee change) / reorg(depth 1..2, keep none/half/all) / fire(6 tickers) / advance-clock / evict / reads / Qi add/remove) "
                 "over 4 accounts x nonces 0..15 x 10 prices, and the schedule: at every lock acquisition, channel operation, select, go statement and map range of the AST-rewritten tx_pool.go exactly one parked goroutine is released, chosen by tape[i] mod |runnable|; tickers fire only when the tape says so. "
                 "Oracles at quiescent points (no reset pending): pending nonce-contiguous from state nonce and affordable per tx, pending and queue disjoint, all == lists == price index, limits, replacement only with price bump, no panic, deadlock decided by the scheduler; "
                 "TestC19Seq additionally compares a single-client history with a sequential reference pool. non-trivial = >=4 executed ops of >=3 kinds with >=1 forced preemption; distinct = distinct trace digest."),
        "expect_probes": ["replacement_accepted", "replacement_rejected", "queue_truncated_or_evicted", "pending_truncated_or_evicted", "pending_demoted", "queued_promoted", "tx_resurrected", "lock_contended", "pool_full",
                          "forced_preemption", "tick_reorg", "clock_jump", "select_choice", "map_order_permuted", "price_change"],
        "components": {"real": ["core.TxPool (tx_pool.go AST-rewritten at build time from /repo's working tree: yields, TryLock loops, named goroutines, scheduler-owned tickers/clock/select/map order)", "tx_list", "tx_noncer", "tx_journal (real files)",
                                "senders/fees LRU", "state.StateDB on memorydb", "ECDSA Quai txs", "Schnorr Qi txs + rawdb UTXOs"],
                       "stub": ["blockChain (17-method stub: block tree, head feed)", "tickers/clock (scheduler)", "senderCacher disabled", "sharing clients off"]},
        "assumptions": ["affordability per transaction (the pool's own Filter rule), not cumulative", "replacement threshold = floor(old*(100+bump)/100)", "AccountQueue limit demanded only after a reset-driven promotion pass",
                        "priced.stales >= stale entries (locals over-count by design)", "replacement not judged for batches that may cross the pool-full boundary", "Stop concurrent with adds is outside the quantifier",
                        "schedules are sampled, not enumerated; a race-build violation replays with the race binary and its rapid seed, not through vcheck replay"],
    },
    "C04": {
        "level": "exploration",
        "tests": [{"pkg": "./chainsim", "run": "TestC04", "quick": 400, "thorough": 30000, "chunk": 25}],
        "rule": S5_RULE + ("Oracle over the recorded history (evaluated on the canonical line after reorgs, every 6th head change and at the end): a FIFO model of the destination queue fed by what the dominant chain delivered with each coincident block "
                 "(rawdb inbound-ETX records) - every executed inbound ETX must be the next queue item; every delivered ETX corresponds to exactly one ETX emitted earlier on the same canonical chain (key = originating tx hash + index), is delivered once, "
                 "and is identical to the emitted one except for the value of conversions; every ETX followed by >=3 prime blocks and 3 more zone blocks has been executed. ETX kinds exercised: coinbase (Quai and Qi), Quai->Qi conversion."),
        "expect_probes": ["reorg"],
        "components": S5_COMPONENTS,
        "assumptions": ["single slice (expansion 0): all ETXs are zone 0-0 -> prime -> zone 0-0; cross-zone delivery, region-level coincidence and delivery to 'another zone' are NOT exercised",
                        "byzantine destination blocks with permuted/duplicated/unknown inbound ETXs are covered only through the C07 body-mutation rows (drop/swap/duplicate a transaction)",
                        "message loss/duplication between nodes is not injected here (single node)"],
    },
    "C16": {
        "level": "exploration",
        "tests": [{"pkg": "./chainsim", "run": "TestC16", "quick": 400, "thorough": 30000, "chunk": 25}],
        "rule": S5_RULE + ("Oracle after every head change: (state-scope) none of the addresses the run could have touched that are outside zone 0-0's Quai ledger - the Qi-ledger conversion recipients and coinbases, and foreign-zone twins of the funded accounts - exists as an account in the state at the header's roots; "
                 "(utxo-scope) every stored UTXO is owned by an in-zone Qi-ledger address."),
        "expect_probes": ["reorg"],
        "components": S5_COMPONENTS,
        "assumptions": ["agreement of all address constructors/decoders on all 2^160 addresses is a pure-function claim and is not decided", "CREATE/CREATE2 address scoping is not yet exercised in this harness (no contract deployment op)",
                        "membership is probed for candidate addresses (the state trie is keyed by hashes; preimages are not recorded)"],
    },
})
