"""Registry of checks: property -> tests, budgets, evidence texts. Imported by vcheck."""

REAL_DB = {
    "real": ["ethdb/memorydb", "ethdb/leveldb (goleveldb on real files in a scratch dir)", "ethdb/pebble (real files)", "core/rawdb table + nofreezedb wrappers"],
    "stub": [],
}

REG = {
    "C17": {
        "level": "exploration",
        "tests": [
            {"pkg": "./dbsim", "run": "TestC17", "quick": 6400, "thorough": 400000, "chunk": 400},
        ],
        "rule": ("one evaluation = one seeded history (rapid tape, 1..128 ops over 24 prefix-sharing keys) of put/delete/get/has/iterate(prefix,start)/"
                 "batch put/delete/SetPending/GetPending/Write/Reset/Replay(cross-engine)/ValueSize/close-reopen/compact/iterator-held-across-writes "
                 "applied in lock-step to memorydb, leveldb and pebble behind one view (raw, rawdb.NewDatabase, rawdb.NewTable) and to a map+ordered-batch model; "
                 "every observable result is compared with the model after every op plus a final full scan. "
                 "non-trivial = history with >=8 executed ops of >=5 kinds; distinct = distinct trace digest (SHA-256 of the executed op log)."),
        "expect_probes": ["pending_hit", "batch_multi_op_write", "iter_multi_key", "replay", "reopen", "iter_held_across_writes"],
        "components": REAL_DB,
        "assumptions": ["GetPending results are only demanded while pending tracking is enabled on the batch",
                        "a written batch is Reset before further puts (the node's usage); ValueSize is only required to be 0 for an empty batch",
                        "power-loss (lost un-synced suffix) is not modelled here; see C11"],
    },
}
