"""Registry of checks: property -> tests, budgets, evidence texts. Imported by vcheck."""

REAL_DB = {
    "real": ["ethdb/memorydb", "ethdb/leveldb (goleveldb on real files in a scratch dir)", "ethdb/pebble (real files)", "core/rawdb table + nofreezedb wrappers"],
    "stub": [],
}

REG = {
    "C17": {
        "level": "exploration",
        "tests": [
            {"pkg": "./dbsim", "run": "TestC17", "quick": 6400, "thorough": 400000, "chunk": 400},
        ],
        "rule": ("one evaluation = one seeded history (rapid tape, 1..128 ops over 24 prefix-sharing keys) of put/delete/get/has/iterate(prefix,start)/"
                 "batch put/delete/SetPending/GetPending/Write/Reset/Replay(cross-engine)/ValueSize/close-reopen/compact/iterator-held-across-writes "
                 "applied in lock-step to memorydb, leveldb and pebble behind one view (raw, rawdb.NewDatabase, rawdb.NewTable) and to a map+ordered-batch model; "
                 "every observable result is compared with the model after every op plus a final full scan. "
                 "non-trivial = history with >=8 executed ops of >=5 kinds; distinct = distinct trace digest (SHA-256 of the executed op log)."),
        "expect_probes": ["pending_hit", "batch_multi_op_write", "iter_multi_key", "replay", "reopen", "iter_held_across_writes"],
        "components": REAL_DB,
        "assumptions": ["GetPending results are only demanded while pending tracking is enabled on the batch",
                        "a written batch is Reset before further puts (the node's usage); ValueSize is only required to be 0 for an empty batch",
                        "power-loss (lost un-synced suffix) is not modelled here; see C11"],
    },
    "C18": {
        "level": "exploration",
        "tests": [
            {"pkg": "./triesim", "run": "TestC18", "quick": 8000, "thorough": 600000, "chunk": 500},
        ],
        "rule": ("one evaluation = one seeded history over trie.Trie / trie.SecureTrie / state.Database.OpenTrie (drawn mode): a tape of update/delete/get/hash/commit/"
                 "triedb disk-commit/cap/reference/dereference/reopen/prove/corrupt-proof/DeriveSha ops over 25 prefix-sharing keys and 13 values (empty=delete, embedded, 32/33/300 bytes, ~40 kB), "
                 "with faults: restart (fresh trie.Database over the same disk), crash at a drawn prefix of the write log of a Database.Commit, proof corruption (bit flip re-keyed under its new hash, foreign key, dropped node). "
                 "Oracles vs a map model with one snapshot per committed root: root-canonical (3 construction orders), get-model, reopen, proof-sound, proof-corrupt, stacktrie-eq, commit-crash. "
                 "non-trivial = >=8 executed ops of >=4 kinds with >=3 keys held at once; distinct = distinct trace digest." + " Added after seeding wave 5: every canonical-root comparison also compares with an independent Merkle-Patricia root computed from the specification (hex-prefix, RLP, keccak, embed-below-32-bytes; no code shared with package trie); op 'copymutate' mutates a copy of the live trie (SecureTrie.Copy / struct copy / Database.CopyTrie) and the original must still serve the model and its root; values sized so that branches of inline leaves come out at 31/32/33 bytes." + ' The model counts references on roots (Reference twice = two retained blocks with one state root); a root that keeps a reference after a Dereference must still be served by the database, checked at once.'),
        "expect_probes": ["restart", "commit_crash", "proof_bitflip-rekeyed", "absence_proof", "prefix_key_pair", "derive_ge128", "commit_multi_batch"],
        "components": {"real": ["trie.Trie", "trie.SecureTrie", "trie.StackTrie", "trie.Database", "trie proofs", "types.DeriveSha", "state.Database", "ethdb/memorydb as disk"],
                       "stub": ["disk write log (harness wrapper recording Put/Delete/batch groups, used to materialise crash-prefix images)"]},
        "assumptions": ["a proof is a set of nodes addressed by their hash (content-addressed proof db); in-place tampering under the original key is outside the property",
                        "an interrupted or never disk-committed root may be missing after restart but must never serve a wrong value"],
    },
}

S5_COMPONENTS = {
    "real": ["core.Core x3 (prime, region, zone) built by core.NewCore: Slice, HeaderChain, BodyDb, StateProcessor, BlockValidator, worker/Miner, TxPool, append queue",
             "consensus/blake3pow (real hashing at genesis difficulty 3000)", "core/rawdb", "trie", "core/state", "core/vm", "protobuf wire codec for pending headers and blocks",
             "dom<->sub Append / pending-ETX / manifest calls through an in-process CoreBackend adapter"],
    "stub": ["libp2p/gossipsub (harness queue; blocks delivered zone, region, prime)", "hierarchical coordinator (harness picks heads on one line and calls GeneratePendingHeader/MakeFullPendingHeader)",
             "external miner (harness searches nonces from a drawn start)", "node tickers (frozen synctest clock; worker refresh invoked through overlay accessor VerifFillPending)",
             "storage engine: SimDisk wrapper (location, write-op log, injected batch errors) over memorydb; C01/C06/C10 draw memorydb, leveldb or pebble (real files in a scratch dir) for the zone database", "RPC/stats/telemetry/freezer not started"],
}
S5_RULE = ("one evaluation = one seeded run of a whole node (prime+region+zone cores) inside a synctest bubble: drawn node configuration (address index on/off, miner preference, lockup byte), "
           "optional fixed prologue (3 prime blocks, 4 Quai->Qi conversions, 13 blocks) and a drawn tape of <=60 ops: mine(order wanted, coinbase ledger, nonce start) / Quai transfer / Quai->Qi conversion / "
           "Qi spend (honest, duplicate outpoint in tx, duplicate outpoint in two txs, locked, wrong key, overspend) / rewind head k blocks / switch head to any known block / refresh pending block. "
           "non-trivial = >=3 blocks mined beyond the prologue and >=6 ops; distinct = distinct trace digest (SHA-256 over ops, tx hashes, block hashes and orders). ")

REG.update({
    "C06": {
        "level": "exploration",
        "tests": [{"pkg": "./chainsim", "run": "TestC06", "quick": 480, "thorough": 40000, "chunk": 30},
                  {"pkg": "./chainsim", "run": "TestC06Net", "quick": 200, "thorough": 15000, "chunk": 20}],
        "rule":  "Network half (TestC06Net): a second honest node B follows A over a simulated faulty network driven by a second tape: each view (zone / region / prime) of every block A mines, on any branch, is a message that arrives in order, out of order (children before parents, dominant views before zone views), twice, is dropped, or is lost while B is partitioned; B's append-queue retry is a scheduled step; B's coordinator follows A's head as far as B has the blocks. When A's tape ends the faults stop, what B lacks is re-sent newest-first, and within 4 re-send rounds B must hold A's canonical line and be able to take A's head (follower-converges) - i.e. B re-executes every canonical block to the commitments A put in the header; no delivery may make B panic (follower-panic)." + S5_RULE + "Oracle after every head change (append or reorg): multiset hash of exactly the ut+cl records in the zone db == header UTXORoot, their count == stored UTXO-set size, state opens at the header's EVM/ETX roots." + " Added after seeding wave 5: every 4th head the validator's Qi verdicts (honest spend, note merging, overspend, duplicate outpoint) are taken with and without the sender-cache shortcut and must agree: the verdict on a block is a function of the block and the chain, not of what the node has cached.",
        "expect_probes": ["nonempty_utxo_set_checked", "reorg", "net.deliver-reordered", "net.deliver-duplicate", "net.dropped", "net.partition", "net.followers_caught_up"],
        "components": S5_COMPONENTS,
        "assumptions": ["single slice (expansion 0); KawPow/AuxPoW regime off", "process-determinism across engines/nodes is decided by C10/C01 cross-node comparisons, not here"],
    },
    "C07": {
        "level": "exploration",
        "tests": [{"pkg": "./chainsim", "run": "TestC07", "quick": 400, "thorough": 30000, "chunk": 25},
                  {"pkg": "./chainsim", "run": "TestC07Byz", "quick": 400, "thorough": 30000, "chunk": 25}],
        "rule": S5_RULE + ("Oracle 1 (TestC07): every block the node's worker assembled and the harness sealed on the head it was built on is appended by the same node and becomes its head (state executed). "
                 "Oracle 2 (TestC07Byz): byzantine op - the honest candidate with ONE component changed (gas used, EVM/UTXO/ETX-set root, receipt hash, outbound-ETX hash, tx hash, state used, state size, average/total fees, uncle hash; "
                 "a transaction dropped, swapped, duplicated or added; an outbound ETX dropped or altered) and re-sealed is never appended-and-executed-as-head, and leaves the chain-state key space (ut, cl, address index, canonical mapping, head pointers) byte-identical."),
        "expect_probes": ["reorg", "byz.evm-root", "byz.utxo-root", "byz.drop-last-tx", "byz.swap-txs", "byz.add-foreign-transfer", "byz.drop-outbound-etx", "byz.total-fees+1"],
        "components": S5_COMPONENTS,
        "assumptions": ["the external miner is honest about its coinbase choice (no Qi coinbase before the controller kick-in)", "byzantine candidates are zone-order blocks only"],
    },
    "C10": {
        "level": "exploration",
        "tests": [{"pkg": "./chainsim", "run": "TestC10", "quick": 320, "thorough": 30000, "chunk": 20},
                  {"pkg": "./chainsim", "run": "TestC10Net", "quick": 200, "thorough": 15000, "chunk": 20}],
        "rule":  "Network half (TestC10Net): a second honest node B follows A over a simulated faulty network driven by a second tape: each view (zone / region / prime) of every block A mines, on any branch, is a message that arrives in order, out of order (children before parents, dominant views before zone views), twice, is dropped, or is lost while B is partitioned; B's append-queue retry is a scheduled step; B's coordinator follows A's head as far as B has the blocks. When A's tape ends the faults stop, what B lacks is re-sent newest-first, and within 4 re-send rounds B must hold A's canonical line and be able to take A's head (follower-converges), and with both nodes on that head their chain-state images (ut / cl / address index) must be equal (replicas-agree); no delivery may make B panic (follower-panic)." + S5_RULE + "Oracle (refinement against a fresh node): after the first two head switches of a run and at its end, the ut / cl / address-index records (index compared as a set per address), canonical number->hash mapping and head pointers of the reorganised node equal those of a second node that was only ever fed the winning branch.",
        "expect_probes": ["reorg", "net.deliver-reordered", "net.deliver-duplicate", "net.dropped", "net.partition", "net.followers_caught_up"],
        "components": S5_COMPONENTS,
        "assumptions": ["hash-keyed records (trie nodes) that happen to start with a scanned prefix are excluded from the image"],
    },
    "C11": {
        "level": "fault_enumeration",
        "tests": [{"pkg": "./chainsim", "run": "TestC11", "quick": 320, "thorough": 30000, "chunk": 20}],
        "rule": S5_RULE + ("S6: after the prologue all three disks of the node record one global write-op log (every direct put/delete and every batch commit as one atomic group, in issue order across prime/region/zone). "
                 "After the history, the process is crashed at 1..5 drawn prefixes of that log (every other one snapped to -2..+2 writes around a multi-op zone batch, preferring the block batch that mutates UTXO/lockup records); "
                 "the node is restarted on the surviving images of all three disks. Oracles per image: restart returns without error/panic; the reported head has state and its UTXORoot/size equal the stored ut+cl records; "
                 "re-delivering the original chain (with append-queue ticks) appends every block and the final chain state equals the uncrashed node's. Evaluations = histories; crash images are counted in counters."
                 " Tuning knob (added after seeding wave 5's C11-c): two histories in five run with ethdb.IdealBatchSize = 512 B or 6 KiB instead of 100 KiB (build-time source patch turns the constant into a variable with the same default), so every size-triggered flush - trie.Database.Commit/Cap in several batches, or a block batch flushed early - happens at the block sizes a simulated chain reaches and crash points fall between the partial flushes."),
        "expect_probes": ["crash_between-writes", "crash_right-after-zone-batch", "crash_right-after-utxo-mutating-block-batch", "history_has_utxo_mutating_batch"],
        "components": S5_COMPONENTS,
        "assumptions": ["batches are atomic (engine contract); a crash loses a suffix of the write log, never reorders it", "crash points are sampled per history, not enumerated exhaustively"],
    },
    "C09": {
        "level": "exploration",
        "tests": [{"pkg": "./chainsim", "run": "TestC09", "quick": 400, "thorough": 30000, "chunk": 25}],
        "rule": S5_RULE + ("Byzantine op: the node's honest zone-order candidate block is copied through the wire codec, ONE parent-derived header field is changed (number, difficulty +-1, gas/state limit, base fee, prime terminus hash/number, "
                 "expansion number, parent entropy / delta / uncled delta, uncled entropy, time before parent, time far in the future, parent hash = grandparent), the block is RE-SEALED with real blake3 work and handed to the node; oracle: never appended-and-executed-as-head, and chain state unchanged. "
                 "Plus on every honestly accepted edge: accumulated entropy strictly increases, recorded parent entropy equals the parent's accumulated entropy, order recomputed later equals the order at mining time." + " Added after seeding wave 4: timestamps 2^63, 2^63+now, 2^64-1-k; for every dominant-order block the view its region / prime chain accepted is copied with its number in that context changed (+1, -1, 0, +1000), or with one of the other fields that context derives from the parent changed (parent entropy, parent delta / uncled delta entropy, region / prime state root, efficiency score, threshold count, eligible slices, miner difficulty), re-sealed to the same order and given to that chain's HeaderChain.VerifyHeader, which must refuse it while the unchanged copy passes." + " The order of an accepted block is recomputed with the node's current expansion number set to other values and the order cache emptied (restart / eviction): it must not change."),
        "expect_probes": ["byz.difficulty+1", "byz.number+1", "byz.time-far-future", "byz.parent-entropy+1", "byz.prime-terminus-hash", "byz.base-fee+1", "reorg"],
        "components": S5_COMPONENTS,
        "assumptions": ["share-difficulty (SHA/Scrypt/KawPow) fields are not exercised: the KawPow fork regime is off in this harness", "efficiency score / threshold count / eligible-slices rewrites are observed, not judged: no property names them as derived for zone blocks",
                        "per-node clock skew for the future-block rule is not yet injected (the bubble clock is frozen)"],
    },
    "C08": {
        "level": "exploration",
        "tests": [{"pkg": "./chainsim", "run": "TestC08", "quick": 400, "thorough": 30000, "chunk": 25}],
        "rule": S5_RULE + ("Byzantine op: the honest sealed candidate is changed WITHOUT re-sealing (nonce+1, mix hash, gas used, coinbase, time, a dropped transaction, halved difficulty) - a reused seal on different content - and handed to the node; "
                 "cases whose new hash meets the target by luck (p=1/difficulty) are discarded. Oracle: never accepted. Plus for every accepted block the harness recomputes blake3(mix||seal||nonce) itself and compares with the declared difficulty's target; "
                 "(workshare-target) copies of the accepted header are re-sealed with nonces whose hash falls at or below the workshare target 2^256/difficulty*2^k (k = the protocol's workshare threshold), within 2x above it and 2x..16x above it, and the node's CheckIfValidWorkShare must grade the first valid and the others not; "
                 "(seal-covers-content) every field of the header in the pre-fork and in the post-KawPow layout (share counts and targets populated) is changed alone and the seal hash must move."),
        "expect_probes": ["byz.nonce+1-no-reseal", "byz.seal-reuse-coinbase", "byz.seal-reuse-tx-dropped", "byz.seal-reuse-difficulty-lowered"],
        "components": S5_COMPONENTS,
        "assumptions": ["only the blake3 engine is exercised: progpow/kawpow DAG hashing and the AuxPoW (SHA/Scrypt donor coinbase, merkle branch, template signature) clauses are NOT decided by this check",
                        "difficulty boundary values 0, 1, 2^256 are not generated"],
    },
    "C19": {
        "level": "exploration",
        "tests": [
            {"pkg": "./poolsim", "run": "TestC19", "quick": 1600, "thorough": 160000, "chunk": 100, "race": True},
            {"pkg": "./poolsim", "run": "TestC19Seq", "quick": 800, "thorough": 40000, "chunk": 100},
        ],
        "rule": ("one evaluation = one rapid tape: pool configuration (limits 1..4, PriceBump 10, Lifetime 10 s, balances, gas limit, base fee, journal, NoLocals), a workload of 1..5 rounds of <=3 ops for each of 2..4 client goroutines "
                 "(add-local / add-remote / add-remotes / add-locals / set-gas-price / head(+1..2 blocks from pool pending or foreign txs, balance drain/top-up, gas-limit/base-fee change) / reorg(depth 1..2, keep none/half/all) / fire(6 tickers) / advance-clock / evict / reads / Qi add/remove) "
                 "over 4 accounts x nonces 0..15 x 10 prices, and the schedule: at every lock acquisition, channel operation, select, go statement and map range of the AST-rewritten tx_pool.go exactly one parked goroutine is released, chosen by tape[i] mod |runnable|; tickers fire only when the tape says so. "
                 "Oracles at quiescent points (no reset pending): pending nonce-contiguous from state nonce and affordable per tx, pending and queue disjoint, all == lists == price index, limits, replacement only with price bump, no panic, deadlock decided by the scheduler; "
                 "TestC19Seq additionally compares a single-client history with a sequential reference pool. non-trivial = >=4 executed ops of >=3 kinds with >=1 forced preemption; distinct = distinct trace digest." + " Added after seeding wave 5: wherever a list's sorted-read cache is populated (what Content, Pending and the miner's view return) it holds exactly the list's transactions in nonce order (reader-view)."),
        "expect_probes": ["replacement_accepted", "replacement_rejected", "queue_truncated_or_evicted", "pending_truncated_or_evicted", "pending_demoted", "queued_promoted", "tx_resurrected", "lock_contended", "pool_full",
                          "forced_preemption", "tick_reorg", "clock_jump", "select_choice", "map_order_permuted", "price_change"],
        "components": {"real": ["core.TxPool (tx_pool.go AST-rewritten at build time from /repo's working tree: yields, TryLock loops, named goroutines, scheduler-owned tickers/clock/select/map order)", "tx_list", "tx_noncer", "tx_journal (real files)",
                                "senders/fees LRU", "state.StateDB on memorydb", "ECDSA Quai txs", "Schnorr Qi txs + rawdb UTXOs"],
                       "stub": ["blockChain (17-method stub: block tree, head feed)", "tickers/clock (scheduler)", "senderCacher disabled", "sharing clients off"]},
        "assumptions": ["affordability per transaction (the pool's own Filter rule), not cumulative", "replacement threshold = floor(old*(100+bump)/100)", "AccountQueue limit demanded only after a reset-driven promotion pass",
                        "priced.stales >= stale entries (locals over-count by design)", "replacement not judged for batches that may cross the pool-full boundary", "Stop concurrent with adds is outside the quantifier",
                        "schedules are sampled, not enumerated; a race-build violation replays with the race binary and its rapid seed, not through vcheck replay"],
    },
    "C04": {
        "level": "exploration",
        "tests": [{"pkg": "./chainsim", "run": "TestC04", "quick": 400, "thorough": 30000, "chunk": 25},
                  {"pkg": "./chainsim", "run": "TestC04Net", "quick": 200, "thorough": 15000, "chunk": 20}],
        "rule":  "Network half (TestC04Net): a second honest node B follows A over a simulated faulty network driven by a second tape: each view (zone / region / prime) of every block A mines, on any branch, is a message that arrives in order, out of order (children before parents, dominant views before zone views), twice, is dropped, or is lost while B is partitioned; B's append-queue retry is a scheduled step; B's coordinator follows A's head as far as B has the blocks. When A's tape ends the faults stop, what B lacks is re-sent newest-first, and within 4 re-send rounds B must hold A's canonical line and be able to take A's head (follower-converges), and the ETX history oracle below is evaluated on B's database; no delivery may make B panic (follower-panic)." + S5_RULE + ("Oracle over the recorded history (evaluated on the canonical line after reorgs, every 6th head change and at the end): a FIFO model of the destination queue fed by what the dominant chain delivered with each coincident block "
                 "(rawdb inbound-ETX records) - every executed inbound ETX must be the next queue item; every delivered ETX corresponds to exactly one ETX emitted earlier on the same canonical chain (key = originating tx hash + index), is delivered once, "
                 "and is identical to the emitted one except for the value of conversions; every ETX followed by >=3 prime blocks and 3 more zone blocks has been executed. ETX kinds exercised: coinbase (Quai and Qi), Quai->Qi conversion. "
                 "Fault 'forged pending ETXs': for half of the mined blocks a peer that saw the sealed block first pushes a batch of pending ETXs for it (emptied, truncated, one value altered, one duplicated) at the region and prime chains before the node processes the block; every such batch must be refused and must not shadow the genuine one." + " ETX queue model: every 5th head a private copy of the state under the head is pushed batches sized so that one straddles the growth of the queue index from one byte to two (255 -> 256) plus a single push, then everything is popped against a FIFO model: nothing lost, nothing out of order, nothing from nothing."),
        "expect_probes": ["reorg", "forged_pending_etxs_emptied", "forged_pending_etxs_altered", "net.deliver-reordered", "net.deliver-duplicate", "net.dropped", "net.partition", "net.followers_caught_up", "etx_queue_index_growth_straddled"],
        "components": S5_COMPONENTS,
        "assumptions": ["single slice (expansion 0): all ETXs are zone 0-0 -> prime -> zone 0-0; cross-zone delivery, region-level coincidence and delivery to 'another zone' are NOT exercised",
                        "byzantine destination blocks with permuted/duplicated/unknown inbound ETXs are covered only through the C07 body-mutation rows (drop/swap/duplicate a transaction)",
                        "message loss/duplication between nodes is not injected here (single node)"],
    },
    "C16": {
        "level": "exploration",
        "tests": [{"pkg": "./chainsim", "run": "TestC16", "quick": 400, "thorough": 30000, "chunk": 25},
                  {"pkg": "./evmsim", "run": "TestC16", "quick": 1600, "thorough": 150000, "chunk": 100}],
        "rule": S5_RULE + ("Once per run (address-classification): a table of boundary addresses (zone byte x ledger bit x tail) x six node locations through BytesToAddress, Bytes20ToAddress, HexToAddress, ProtoDecode and the mixed-case string path: internal exactly when the first byte is the location's prefix, ledger exactly the high bit of the second byte, bytes preserved. "
                 "EVM half (evmsim TestC16): generated contract programs (S3 harness) weighted towards CREATE/CREATE2 (salts ground for in-zone Quai addresses, arbitrary salts, and salts ground for in-zone Qi-ledger addresses), value transfers, external calls and self-destructs aimed at Qi and foreign-zone addresses, with out-of-gas cuts and injected frame failures; "
                 "oracle (creation-scope): a creation that reports success reports an in-zone Quai address that equals the CREATE2 derivation, a CREATE2 towards an out-of-scope address fails and leaves no account; (state-scope) after every transaction none of the out-of-scope addresses the run pointed at exists in the state. "
                 "Oracle after every head change: (state-scope) none of the addresses the run could have touched that are outside zone 0-0's Quai ledger - the Qi-ledger conversion recipients and coinbases, and foreign-zone twins of the funded accounts - exists as an account in the state at the header's roots; "
                 "(utxo-scope) every stored UTXO is owned by an in-zone Qi-ledger address." + ' Fork sides of the Qi validator: a Qi wrapping transaction and a Qi->Quai conversion over a live unspent output are judged by core.ProcessQiTx under copies of the pending header whose prime terminus number is moved to F-2, F-1, F, F+1 for every fork that gates that code (Qi wrapping change, KawPow and SHA-equivalent forks and the ends of their conversion hold windows; base fee 1, post-fork share fields populated): same side, same verdict and same number of stored outputs; from the wrapping change on, no output is stored for a Quai-ledger owner.'),
        "expect_probes": ["reorg"],
        "components": S5_COMPONENTS,
        "assumptions": ["agreement of constructors/decoders is decided on a boundary table, not on all 2^160 addresses; the location-less decoders (UnmarshalJSON / UnmarshalText / DecodeRLP) are in the table and are an open known finding",
                        "membership is probed for candidate addresses (the state trie is keyed by hashes; preimages are not recorded)"],
    },
    "C01": {
        "level": "exploration",
        "tests": [{"pkg": "./chainsim", "run": "TestC01", "quick": 400, "thorough": 30000, "chunk": 25}],
        "rule": S5_RULE + ("The zone database engine (memorydb / leveldb / pebble on a scratch directory) is drawn per run. Oracle 1 (utxo-model), for every block the node accepts as head: with the stored UTXO set before and after the block, every Qi transaction's inputs are distinct, unspent on this chain "
                 "(outputs created earlier in the block allowed), unlocked, owned by the key that the harness itself verifies the (MuSig2-aggregated) Schnorr signature against, outputs <= inputs; everything that disappeared was spent or trimmable, everything that appeared is a transaction output or was minted by an inbound ETX of the block for no more than its value. "
                 "Oracle 2 (direct-verdict), every third head: the validator's Qi path core.ProcessQiTx is driven with adversarial transactions over the live UTXO set through a batch of the drawn engine "
                 "(same outpoint twice in one tx, same outpoint in two txs of one block, spend of an output created earlier in the block, locked input, non-owner key, outputs > inputs, honest single-key and two-input MuSig2 spends) and its accept/reject verdict must equal the model's." + " Added after seeding waves 4/5: adversarial cases 'second input not owned, same pubkey', 'payment to an in-zone Quai-ledger payee', 'k+1 notes merged into one note of the next denomination'; every verdict that does not concern the signature is taken twice - with the signature check and with the sender-cache shortcut (checkSig=false) - and must agree." + ' Fork sides of the Qi validator: a Qi wrapping transaction and a Qi->Quai conversion over a live unspent output are judged by core.ProcessQiTx under copies of the pending header whose prime terminus number is moved to F-2, F-1, F, F+1 for every fork that gates that code (Qi wrapping change, KawPow and SHA-equivalent forks and the ends of their conversion hold windows; base fee 1, post-fork share fields populated): same side, same verdict and same number of stored outputs; from the wrapping change on, no output is stored for a Quai-ledger owner.'),
        "expect_probes": ["qi_tx_in_accepted_block", "qi_minted_by_inbound_etx", "qi_adversarial.second-tx-same-outpoint-in-block", "qi_adversarial.dup-outpoint-in-one-tx", "qi_adversarial.locked-input", "qi_adversarial.two-input-musig-honest", "reorg"],
        "components": S5_COMPONENTS,
        "assumptions": ["wrong-denomination merges, wrapping and Qi->Quai conversion outputs are not generated", "fork regimes other than the default (QiWrappingChangeBlock etc.) are not varied",
                        "a legal transaction refused for fee reasons is not judged (fee floors depend on the exchange rate)"],
    },
    "C12": {
        "level": "fault_enumeration",
        "tests": [{"pkg": "./evmsim", "run": "TestC12", "quick": 2400, "thorough": 200000, "chunk": 150}],
        "rule": 'one evaluation = one rapid tape, executed as ~17 transaction passes: 1..5 contracts of 1..7 actions each compiled by the harness assembler into a call DAG (SSTORE/SLOAD/TSTORE/LOG/MSTORE/value transfer/SELFDESTRUCT/ETX/CONVERT/plain CALL leaving the chain scope/lockup precompile/other precompiles/CALL,CALLCODE,DELEGATECALL,STATICCALL with drawn gas/CREATE,CREATE2/REVERT/INVALID/RETURN), a drawn transaction kind (call, create, inbound ETX, to an external or Qi address, to the lockup precompile, EOA self-destruct, transfer), prime-terminus and block numbers on both sides of each fork, state size, fee, ETX eligibility mask, lockup records on disk or in the batch, access-list enforcement, and the block batch backend (memorydb / leveldb / pebble). Fault plan: one ample-gas pass records every interpreter step; then the gas limit is cut at every depth-1 step boundary (all if <=40, else a drawn subset) plus drawn fractions, and gas is injected away at inner-frame steps (all if <=24) - every cut is one pass through the real core.ApplyTransaction. ' + ("A quarter of the runs are direct StateDB mode: tapes of 21 mutation kinds over 6 addresses / 4 slots with Snapshot/RevertToSnapshot nested up to 6 deep, compared getter by getter with a deep-copy model after every revert, plus (before the seeded part of every process) the exhaustive enumeration of every sequence of <=3 of 20 atoms at every (snapshot, revert) placement (49 220 cases). "
                 "Oracles: frame-digest (world digest - accounts, slots, transient slots, suicide marks, size counters, refund, logs, access list, pending ETXs, CoinbasesDeleted, batch-visible lockup records - at frame entry == after its failure), failed-tx-root, final-storage-model, direct-digest, direct-root. "
                 "non-trivial (bytecode) = depth >=2, >=8 steps and a frame failure or an outcome-changing cut; (direct) >=8 ops of >=4 kinds, nesting >=3, >=1 revert; distinct = trace digest."),
        "expect_probes": ["oog_cut", "oog_injected_inner_frame", "etx_emitted_then_reverted", "lockup_claim_in_reverted_frame", "selfdestruct_then_reverted", "create_then_reverted", "inner_failure_outer_success", "depth3plus", "exhaustive_cases"],
        "components": {"real": ["core.ApplyTransaction and everything below it (state transition, gas purchase/refund, EVM interpreter, all call kinds, ETX/CONVERT opcodes, lockup precompile, journal, Finalize, UndoCoinbasesDeleted, receipts)", "state.StateDB", "rawdb lockup accessors", "block batch on memorydb/leveldb/pebble with SetPending"],
                       "stub": ["ChainContext (12-method stub: parent header as prime block, ETX eligibility from a drawn mask)", "headers built with types.EmptyWorkObject"]},
        "assumptions": ["ETX and CONVERT are not call frames: their failure exits are judged under C05", "a failed CREATE keeps the creator's nonce increment (belongs to the creator's frame)", "pending outbound ETXs have no journaled StateDB API: covered in bytecode mode through evm.ETXCache only",
                        "bytecode is sampled from a grammar, not all programs"],
    },
    "C05": {
        "level": "fault_enumeration",
        "tests": [{"pkg": "./evmsim", "run": "TestC05", "quick": 2400, "thorough": 200000, "chunk": 150}],
        "rule": 'one evaluation = one rapid tape, executed as ~17 transaction passes: 1..5 contracts of 1..7 actions each compiled by the harness assembler into a call DAG (SSTORE/SLOAD/TSTORE/LOG/MSTORE/value transfer/SELFDESTRUCT/ETX/CONVERT/plain CALL leaving the chain scope/lockup precompile/other precompiles/CALL,CALLCODE,DELEGATECALL,STATICCALL with drawn gas/CREATE,CREATE2/REVERT/INVALID/RETURN), a drawn transaction kind (call, create, inbound ETX, to an external or Qi address, to the lockup precompile, EOA self-destruct, transfer), prime-terminus and block numbers on both sides of each fork, state size, fee, ETX eligibility mask, lockup records on disk or in the batch, access-list enforcement, and the block batch backend (memorydb / leveldb / pebble). Fault plan: one ample-gas pass records every interpreter step; then the gas limit is cut at every depth-1 step boundary (all if <=40, else a drawn subset) plus drawn fractions, and gas is injected away at inner-frame steps (all if <=24) - every cut is one pass through the real core.ApplyTransaction. ' + ("Oracles: op-atomicity - for every ETX / CONVERT / out-of-scope CALL / lockup-precompile operation: status word present and (status==1 <=> debit == value + prepaid fee and exactly one new ETX at index == old length with the stated fields) or (failure <=> no debit and no ETX), stack height after the op; "
                 "etx-list-equals-model - receipt.OutboundEtxs equals the operations recorded by completed, non-reverted frames in execution order. non-trivial = an outbound operation executed; distinct = trace digest."),
        "expect_probes": ["oog_cut", "etx_committed", "etx_emitted_then_reverted", "etx_reverted_in_inner_frame_of_successful_tx", "lockup_claim_in_reverted_frame"],
        "components": {"real": ["core.ApplyTransaction and below (opETX, opConvert, EVM.CreateETX, lockup precompile UnwrapQi/ClaimCoinbaseLockup, receipts)", "state.StateDB", "block batch on memorydb/leveldb/pebble"],
                       "stub": ["ChainContext stub", "headers built with types.EmptyWorkObject"]},
        "assumptions": ["the early 'sender not internal' exit of opETX is unreachable for a running contract and is not exercised", "programs are grammar-sampled"],
    },
    "C02": {
        "level": "exploration",
        "tests": [{"pkg": "./evmsim", "run": "TestC02", "quick": 2400, "thorough": 200000, "chunk": 150}],
        "rule": 'one evaluation = one rapid tape, executed as ~17 transaction passes: 1..5 contracts of 1..7 actions each compiled by the harness assembler into a call DAG (SSTORE/SLOAD/TSTORE/LOG/MSTORE/value transfer/SELFDESTRUCT/ETX/CONVERT/plain CALL leaving the chain scope/lockup precompile/other precompiles/CALL,CALLCODE,DELEGATECALL,STATICCALL with drawn gas/CREATE,CREATE2/REVERT/INVALID/RETURN), a drawn transaction kind (call, create, inbound ETX, to an external or Qi address, to the lockup precompile, EOA self-destruct, transfer), prime-terminus and block numbers on both sides of each fork, state size, fee, ETX eligibility mask, lockup records on disk or in the batch, access-list enforcement, and the block batch backend (memorydb / leveldb / pebble). Fault plan: one ample-gas pass records every interpreter step; then the gas limit is cut at every depth-1 step boundary (all if <=40, else a drawn subset) plus drawn fractions, and gas is injected away at inner-frame steps (all if <=24) - every cut is one pass through the real core.ApplyTransaction. ' + ("Oracles over the whole committed trie: tx-conservation (sum of balances after <= before - gasUsed*price - value carried by emitted ETXs + refunds + inbound value: nothing created), value-destroyed (the lower bound, with documented burns - SELFDESTRUCT to self, value of a failed inbound ETX, residue on the zero address - counted by probes and not reported), "
                 "gas-charge-bounds (gasUsed*price <= charge <= gasLimit*price), failed-tx-balance (a failed tx changes only the payer), negative-balance. non-trivial = value moved; distinct = trace digest." + ' Added after seeding wave 5: after the checks of a pass, every account the transaction destroyed is created again (StateDB.CreateAccount, what the next transfer or creation landing on it does) and must start with balance 0.'),
        "expect_probes": ["oog_cut", "documented_burn", "etx_committed", "inner_failure_outer_success", "selfdestruct_then_reverted"],
        "components": {"real": ["core.ApplyTransaction and below", "state.StateDB (balances summed over the committed trie)", "block batch on memorydb/leveldb/pebble"],
                       "stub": ["ChainContext stub", "headers built with types.EmptyWorkObject"]},
        "assumptions": ["the system-level form (sum over zones + in-flight ETXs + locked rewards) is not decided here", "programs are grammar-sampled"],
    },
    "C13": {
        "level": "exploration",
        "tests": [{"pkg": "./chainsim", "run": "TestC13", "quick": 320, "thorough": 25000, "chunk": 20}],
        "rule": S5_RULE + ("Additional ops: deploy an owner contract (a forwarder to the lockup precompile; address ground into the zone's Quai ledger), switch the miner's lockup byte 0..3 and lockup contract, claim a lockup through the contract "
                 "(three times out of four aimed at a stored lockup, sometimes through a contract that does not own it, sometimes for the epoch still accumulating or before the tranche unlocks). Most runs start from prologue 3 (contract deployed, contract-held lockups of two epochs). "
                 "Oracles after every accepted block: (credit-ledger) a model of contract-held lockups keyed (contract, miner, lockup byte, epoch), fed only by the coinbase ETXs executed in accepted blocks, equals the stored cl records exactly; "
                 "Qi rewards are minted under the reward ETX's hash, locked until exactly block+depth, for no more than the lockup-adjusted value; the plain-reward account's balance changes at a block by exactly the rewards whose unlock height it is (less the account-creation fee the first time); "
                 "(claim-once) a claim pays only an existing lockup, of a closed epoch, at or after its tranche unlock height, exactly its accumulated balance, to the stated recipient from the owning contract, and removes it; (share-once) no uncle/workshare is included twice on a chain or is itself canonical." + ' The lockup-owner contract reverts when the precompile refuses (premature, repeated, foreign claims become failed transactions next to successful ones in one block).' + " Fault kind added after seeding wave 7 (C13-f): the harness miner chooses its own header data through a build-time seam in the worker - the lockup byte followed by 1..19 stray bytes, a layout that is neither a plain nor a contract reward and that the protocol declares lost; the credit-ledger oracle then demands that such a reward is credited neither at issuance nor at any unlock height."),
        "expect_probes": ["contract_lockup_reward", "lockup_accumulated", "claim_paid", "claim_refused", "quai_reward_unlocked", "qi_reward_checked", "uncle_included", "reorg"],
        "components": S5_COMPONENTS,
        "assumptions": ["the reward amount of a coinbase ETX is taken from the honest block (worker/validator agreement is C07); only the lockup adjustment uses params.CalculateCoinbaseValueWithLockup",
                        "delegates in coinbase data are not generated", "lockup rewards multiples are inactive below 2*BlocksPerMonth; the regime sets BlocksPerMonth=3 so that lockup bytes 1..3 are used"],
    },
    "C20": {
        "level": "exploration",
        "tests": [{"pkg": "./chainsim", "run": "TestC20", "quick": 320, "thorough": 25000, "chunk": 20}],
        "rule": S5_RULE + ("Conversions in both directions (Quai->Qi from general senders and from a dedicated converter account, with slippage bytes from the tightest bound to beyond MaxSlip; Qi->Quai singly and in bursts of 8..15 to a dedicated recipient) travel zone -> prime -> zone. "
                 "One run in six sits on the historic side of the conversion-discount fork (ConversionSlipChangeBlock). Oracles per conversion id (originating tx hash, index), on the canonical chain after every accepted block: "
                 "delivered either repriced (Conversion) or as a refund (ConversionRevert) of exactly the original amount; when the child prime block becomes head, the repriced amount is <= the amount implied by the rate recorded there and >= the 10 % floor; "
                 "Quai->Qi credits are minted under the ETX hash, locked until exactly execution height + ConversionLockPeriod, for no more than the delivered value; the Qi->Quai recipient's balance changes at a block by exactly the conversions executed ConversionLockPeriod blocks earlier; "
                 "the dedicated converter is debited exactly value + gas for every conversion it got included and credited exactly the original value on refund; Qi->Quai refunds are re-minted, locked, for no more than the original." + " Rate function: on both sides of every conversion-related fork height (F-2, F-1 | F, F+1) the conversion of a fixed amount at fixed difficulty / rate / share counts is equal, round trips at a fixed rate never gain, and for amounts just below a whole unit of the target ledger (m = 1, 7, 1000, 10^6; mainnet-scale and low its-per-qit ratios) the result never exceeds amount x target reward / origin reward rounded down; the amount 'implied by the rate' in the chain oracle is computed from the two block-reward functions, not from the conversion functions."),
        "expect_probes": ["conversion_amount_bounded", "quai_to_qi_credited", "qi_to_quai_credited", "quai_to_qi_refunded", "qi_to_quai_refunded", "converter_debited", "reorg"],
        "components": S5_COMPONENTS,
        "assumptions": ["the exchange-rate controller itself does not move in these runs (fewer than TokenChoiceSetSize prime blocks): rising/falling trajectories are not exercised", "round trips at a fixed rate and the dust rule are bounded only through the per-leg upper bounds",
                        "the rate applied to conversions confirmed by prime block P is read from the header of P's child prime block (the protocol's own record), not re-derived"],
    },
    "C14": {
        "level": "exploration",
        "tests": [{"pkg": "./chainsim", "run": "TestC14", "quick": 320, "thorough": 25000, "chunk": 20}],
        "rule": S5_RULE + ("Monitors on every object the run produces: each block view that crosses the simulated wire (zone, region, prime; block and header views) is encoded with the real protobuf codec, decoded at the receiver's location and re-encoded - equal hash, header hash, seal hash, body, identical bytes; "
                 "every block is read back from each context's database through rawdb (hash, header hash, body sizes, receipts count); every block goes through MarshalJSON/UnmarshalJSON and through the JSON-RPC server form (RPCMarshalWorkObject v1 and v2) decoded as the client library does; "
                 "every transaction and outbound ETX of every block (Quai, Qi with 1..3 inputs, conversions, coinbases with every lockup byte and data layout, claims, contract creation with access list) round-trips through protobuf and JSON with equal hash, field-by-field equal decoded object and identical re-encoding; every third Quai/Qi transaction is additionally copied with each of the 7 presence combinations of the optional work fields "
                 "(parent hash, mix hash, work nonce): same round trips, and no two copies share a hash; the block's receipts are read back through rawdb.ReadReceipts: they hash to the header's receipt root, name the right transaction/block, carry block-wide sequential log indices "
                 "(the forwarder contract emits two logs per call), and each receipt survives its consensus RLP encoding with logs and outbound ETXs; "
                 "a block rewritten in one consensus field (byzantine rows of C07/C08/C09) never shares the hash of the honest candidate." + " Also per block: the termini each context stored, the pending-ETX bundle the dominant chains hold, and the peer protocol's frames (requests by hash / number for each answer type; answers with block view, header view, list of block views, hash, empty) are encoded, decoded and compared."),
        "expect_probes": ["reorg", "byz.tx-hash", "byz.parent-hash", "block_with_logs_in_two_receipts"],
        "components": S5_COMPONENTS,
        "assumptions": ["objects are those the node and the harness generate in runs plus work-field presence copies of transactions; zero-vs-absent and maximum-width combinations of other fields are not generated (pure codec algebra over arbitrary inputs is outside this technique)",
                        "Receipt.Status 'locked' (2) is stored as 'successful' (same consensus encoding); the processing-time receipt is not observable from outside the processor, so that field is not compared",
                        "termini, pending-ETX bundles and the peer protocol's request / response frames built around each block are round-tripped through their wire encodings; rollups only through the dom/sub calls", "RLP of ETXs in the ETX trie is covered by C04's queue check only"],
    },
    "C03": {
        "level": "exploration",
        "tests": [{"pkg": "./chainsim", "run": "TestC03", "quick": 320, "thorough": 25000, "chunk": 20}],
        "rule": S5_RULE + ("Monitor on every transaction the simulated clients sign (transfers, conversions with data, contract creations and calls with access lists; Qi transactions with 1..3 inputs): "
                 "for every second Quai transaction each signed field in turn (nonce, gas, gas price, value, recipient, recipient present/absent, data appended/flipped, access-list address/key added, chain id) is changed with the signature kept, and each signature value is pushed to an edge "
                 "(r=0, s=0, r=N, s=N, r=N+1, high-S with flipped v, v=2, v flipped, r+1): types.Sender must fail or return another address, and the node's live tx pool must not book the rewrite to the original sender; a sender cached under the chain's signer is not served to a signer of another chain id and survives that query. "
                 "For every valid Qi transaction, a changed output denomination/address, a dropped output, changed data or chain id with the Schnorr (MuSig2) signature kept must fail the node's own ValidateQiTxInputs + ValidateQiTxOutputsAndSignature on the live UTXO set." + " Added after seeding wave 4: recovery ids v+256, v+512, v+2^32, v+2^64, v+27 (equal to the genuine one modulo a byte / a word); the same content signed by the same key for chain ids 0, 1, 9, 1337 and the neighbour id must not be attributed to the key holder by this chain's signer nor booked by the pool (cross-chain-replay); every third head the validator's own Qi path (core.ProcessQiTx) is driven with the adversarial cases of C01, including a second input that is not owned by the presented key." + ' For every valid Qi transaction the signing digest is computed with data of 0, 1, 20, 22 and 23 bytes (two values each for 20 and 22): all digests must differ.'),
        "expect_probes": ["rewrite.nonce", "rewrite.chain-id", "rewrite.high-s", "rewrite.access-list-key", "rewrite.qi-output-denomination", "rewrite.qi-data", "reorg"],
        "components": S5_COMPONENTS,
        "assumptions": ["the per-field quantifier is enumerated over the field list of the current transaction types, not proved; elliptic-curve recovery maths is trusted",
                        "rewritten transactions inside blocks (checkSig=false path through the pool sender cache) are covered by the C07 'add-foreign-transfer' / duplicate rows only"],
    },
    "C15": {
        "level": "exploration",
        "tests": [{"pkg": "./chainsim", "run": "TestC15", "quick": 240, "thorough": 20000, "chunk": 20},
                  {"pkg": "./evmsim", "run": "TestC15", "quick": 1600, "thorough": 150000, "chunk": 100}],
        "rule": ("Wire half (chainsim TestC15): " + S5_RULE + "Fault kind 'corrupted frame': every block view a run produces (block view and header view, zone/region/prime) is serialised with the production gossip codec (pb.ConvertAndMarshal), "
                 "corrupted 6 times (bit flip, truncation, byte deletion, byte duplication, 0xff, 0x00, inflated length prefix; positions derived from the block hash) and pushed through the production receive pipeline "
                 "(pb.UnmarshalAndConvert -> Core.SanityCheck...ViewBody -> Core.WriteBlock and whatever the append does); every transaction of every block is corrupted 3 times as a protobuf transaction frame and fed to ProtoDecode and the live pool's AddRemote; per block, AuxPoW donor frames (ProtoAuxPow for SHA_BTC, SHA_BCH and Scrypt donors around a coinbase whose scriptSig commits to the block's seal hash) are fed well-formed, "
                 "with every truncation of the donor scriptSig, and with byte-level corruptions of the coinbase transaction and of the frame, through AuxPow.ProtoDecode and the parser sequence the share validator and header verification run (ExtractScriptSig/SignatureTime/SealHash/MerkleSizeAndNonce/Height, CalculateMerkleRoot, ValidatePrevOutPoint..., ConvertToTemplate().VerifySignature, PowHash). "
                 "Oracle: no panic escapes any of these entry points (the harness installs recover only to turn the panic into the violation) and the node can still return to its honest head. "
                 "EVM half (evmsim TestC15): the generated programs and gas cuts of the S3 harness with memory-heavy actions and large ETX data windows; a tracer records memory size and gas at every step; "
                 "oracle: the price of the memory growth a step causes (3 gas/word + words^2/512) never exceeds what that step was charged in total." + ' Peer-protocol request / response frames built around each block are corrupted twice each and given to DecodeQuaiMessage, DecodeQuaiRequest / DecodeQuaiResponse and the body sanity checks.' + " Fault kind 'field dropped' (every third block): the block- and header-view frames are decoded as protobuf and re-encoded once per populated message- or bytes-typed field (to depth 4) with exactly that field left out."),
        "expect_probes": ["corrupt.bit-flip", "corrupt.truncate", "corrupt.huge-length-prefix", "corrupt.tx-bit-flip", "corrupt.donor-script-truncated", "corrupt.field-dropped", "donor_frames_parsed", "memory_growth_checked", "large_memory_expansion"],
        "components": {"real": S5_COMPONENTS["real"] + ["p2p/pb gossip codec (ConvertAndMarshal / UnmarshalAndConvert)", "Core.SanityCheckWorkObject*ViewBody", "TxPool.AddRemote", "vm interpreter with a vm.Tracer"],
                       "stub": S5_COMPONENTS["stub"] + ["the libp2p transport and the gossipsub validator wrapper (signature/PoW filter of shares) are not run", "RLP and hex/JSON RPC argument decoders are not fed; request / response frames of the peer protocol are fed to DecodeQuaiMessage / DecodeQuaiRequest / DecodeQuaiResponse and the sanity checks, not to the stream handlers", "the AuxPoW parser sequence is replayed from the gossip validator's source, the validator wrapper itself is not run"]},
        "assumptions": ["frames are corruptions of real traffic, not arbitrary byte strings", "the 'memory proportional to the input' clause of decoders is not measured (allocation deltas are not attributable in a multi-goroutine process)",
                        "raw block submission, RLP and hex/JSON argument decoders are not exercised by this check"],
    },
})
