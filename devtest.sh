#!/bin/sh
# developer helper: go test with the verif overlay. usage: ./devtest.sh ./chainsim -run X ...
cd /verif/sim
export GOFLAGS=-mod=mod GOPROXY=off GOSUMDB=off GOTOOLCHAIN=local
cat /repo/go.sum extra.sum > go.sum
python3 - <<'PY'
import os, json
ov={"Replace":{}}
for dp,_,fns in os.walk('/verif/overlay'):
    for fn in fns:
        if fn.endswith('.go'):
            rel=os.path.relpath(os.path.join(dp,fn),'/verif/overlay')
            ov["Replace"][os.path.join('/repo',rel)]=os.path.join(dp,fn)
json.dump(ov,open('/var/tmp/dev-overlay.json','w'))
PY
pkg=$1; shift
exec go1.26.8 test -tags verif -overlay /var/tmp/dev-overlay.json -vet=off "$pkg" "$@"
