#!/bin/sh
# developer helper: go test with the verif overlay. usage: ./devtest.sh ./chainsim -run X ...
cd /verif/sim
export GOFLAGS=-mod=mod GOPROXY=off GOSUMDB=off GOTOOLCHAIN=local
export VERIF_KNOWN=${VERIF_KNOWN-/verif/known_findings.json}
cat /repo/go.sum extra.sum > go.sum
python3 - <<'PY'
import os, json
ov={"Replace":{}}
for dp,_,fns in os.walk('/verif/overlay'):
    for fn in fns:
        if fn.endswith('.go'):
            rel=os.path.relpath(os.path.join(dp,fn),'/verif/overlay')
            ov["Replace"][os.path.join('/repo',rel)]=os.path.join(dp,fn)
import sys
harness=os.environ.get('DEV_HARNESS','chainsim')
for i,pt in enumerate(json.load(open('/verif/tools/srcpatch.json')).get(harness,[])):
    src=os.path.join('/repo',pt['file']); text=open(ov['Replace'].get(src,src)).read()
    assert text.count(pt['old'])==1, pt['file']
    os.makedirs('/var/tmp/dev-patched',exist_ok=True)
    dst='/var/tmp/dev-patched/%d_%s'%(i,os.path.basename(pt['file'])); open(dst,'w').write(text.replace(pt['old'],pt['new'])); ov["Replace"][src]=dst
json.dump(ov,open('/var/tmp/dev-overlay.json','w'))
PY
pkg=$1; shift
exec go1.26.8 test -tags verif -overlay /var/tmp/dev-overlay.json -vet=off "$pkg" "$@"
