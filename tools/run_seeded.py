#!/usr/bin/env python3
"""Apply each seeded change in /verif/seeded to /repo, run the listed quick checks, undo, record which checks caught it."""
import json, os, subprocess, sys, time
ROOT='/verif'
REPO=os.environ.get('SWEEP_REPO','/repo')   # a scratch worktree of /repo (git worktree add <dir> HEAD) so that /repo itself stays usable
only=sys.argv[1:]
for sid in sorted(os.listdir(os.path.join(ROOT,'seeded'))):
    d=os.path.join(ROOT,'seeded',sid)
    mp=os.path.join(d,'meta.json')
    if not os.path.exists(mp) or (only and sid not in only): continue
    if not only and json.load(open(mp)).get('status') in ('detected',): continue
    meta=json.load(open(mp))
    assert subprocess.run(['git','-C',REPO,'status','--porcelain'],capture_output=True,text=True).stdout.strip()=='' , "/repo not clean"
    r=subprocess.run(['git','-C',REPO,'apply',os.path.join(d,'patch.diff')],capture_output=True,text=True)
    if r.returncode!=0:
        meta['status']='patch no longer applies: '+r.stderr[:200]; json.dump(meta,open(mp,'w'),indent=1); print(sid,'PATCH-FAILED'); continue
    det=[]; runs={}
    try:
        for c in meta['checks_to_run']:
            t0=time.time()
            env=dict(os.environ); env['VERIF_WORK']='/var/tmp'; env.setdefault('VERIF_SHRINKTIME','15s'); env['VERIF_REPO']=REPO; env['VERIF_EVIDENCE_DIR']='/var/tmp/sweep-evidence'; env['VERIF_REPLAY_DIR']='/var/tmp/sweep-replays'
            p=subprocess.run([os.path.join(ROOT,'vcheck'),'run','-p',c,'-t','quick'],capture_output=True,text=True,cwd=ROOT,env=env)
            v=[l for l in p.stdout.splitlines() if l.startswith('VIOLATION')]
            runs[c]={"exit":p.returncode,"wall_s":round(time.time()-t0),"violation":v[:2]}
            if p.returncode==1 and v: det.append(c)
    finally:
        subprocess.run(['git','-C',REPO,'checkout','--','.'])
    meta['detected_by']=det; meta['runs']=runs; meta['status']='detected' if det else 'MISSED'
    json.dump(meta,open(mp,'w'),indent=1)
    print(sid, meta['status'], det, flush=True)
