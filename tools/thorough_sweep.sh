#!/bin/bash
# thorough-tier sweep of every property (background use: vp run --with-repo -- tools/thorough_sweep.sh <scale> <seed>)
scale=${1:-0.1}; seed=${2:-7}
export VERIF_SCALE=$scale VERIF_SEED=$seed VERIF_EVIDENCE_DIR=$PWD/sweep-evidence VERIF_REPLAY_DIR=$PWD/sweep-replays VERIF_WORKERS=${VERIF_WORKERS:-8}
[ -n "$VP_RUN_REPO" ] && export VERIF_REPO=$VP_RUN_REPO
for p in C17 C18 C19 C12 C05 C02 C15 C16 C01 C03 C04 C06 C07 C08 C09 C10 C11 C13 C14 C20; do
  t0=$(date +%s)
  ./vcheck run -p $p -t thorough > sweep-$p.log 2>&1; rc=$?
  echo "$p exit=$rc wall=$(( $(date +%s)-t0 ))s $(grep -c '^VIOLATION' sweep-$p.log) violations; $(tail -1 sweep-$p.log | cut -c1-160)"
done
