#!/bin/bash
# usage: verify_seed.sh <worktree> <seeddir> <pkgdir> <testregex> <touched pkgs...>
# Confirms in the scratch worktree: patch applies, repo builds, touched packages' tests pass, demo FAILS with the patch and PASSES without.
wt=$1; sd=$2; pkg=$3; re=$4; shift 4
export GOFLAGS=-mod=mod GOPROXY=off
cd $wt || exit 2
git checkout -q -- . ; git clean -fdq -e _seed
git apply $sd/patch.diff || { echo "APPLY-FAILED"; exit 1; }
go build ./... || { echo "BUILD-FAILED"; git checkout -q -- .; exit 1; }
for p in "$@"; do go test -vet=off -count=1 $p > /tmp/vs.out 2>&1 && echo "existing tests $p: ok" || { echo "existing tests $p: FAIL"; tail -5 /tmp/vs.out; }; done
cp $sd/demo_test.go $pkg/zz_seed_demo_test.go
go test -vet=off -count=1 -run "$re" ./$pkg/ > /tmp/vs_with.out 2>&1; with=$?
git checkout -q -- .
go test -vet=off -count=1 -run "$re" ./$pkg/ > /tmp/vs_without.out 2>&1; without=$?
rm -f $pkg/zz_seed_demo_test.go
echo "demo with patch: exit $with (expect !=0); without: exit $without (expect 0)"
[ $with -ne 0 ] && [ $without -eq 0 ] && echo "SEED-CONFIRMED" || echo "SEED-NOT-CONFIRMED"
