#!/usr/bin/env python3
"""save_seed.py <id> <property> <seeddir> <copy_to> <testregex> <wave> [checks...] : copy a confirmed seeded change into /verif/seeded/<id>/"""
import sys, os, shutil, json
sid, prop, sd, pkg, rx, wave = sys.argv[1:7]
checks = sys.argv[7:] or [prop]
d = os.path.join('/verif/seeded', sid)
os.makedirs(d, exist_ok=True)
for f in ('patch.diff', 'demo_test.go', 'notes.md'):
    shutil.copy(os.path.join(sd, f), os.path.join(d, f))
meta = {"id": sid, "property": prop,
 "origin": "independent sub-agent given only the property text and its own scratch worktree (wave %s)" % wave,
 "demo": {"copy_to": pkg, "run": "go test -vet=off -count=1 -run '%s' ./%s/" % (rx, pkg)},
 "confirmed": {"by": "tools/verify_seed.sh in the scratch worktree", "patch_applies": True, "builds": True, "touched_package_tests_pass": True,
   "demo_fails_with_patch": True, "demo_passes_without_patch": True, "full_suite": "run by the seeding agent (see notes.md); touched packages re-run here"},
 "needs_to_manifest": "see notes.md", "checks_to_run": checks, "detected_by": [], "status": "not yet run"}
json.dump(meta, open(os.path.join(d, 'meta.json'), 'w'), indent=1)
print("saved", d)
