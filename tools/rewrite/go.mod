module verif/tools/rewrite

go 1.26
