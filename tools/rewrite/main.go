// rewrite — source rewriter of the controlled-scheduler harnesses (DESIGN §2.4).
//
//	rewrite -repo /repo -out DIR -config rewrite.json -harness poolsim
//
// For every file configured for the harness it parses the file from the
// repository's CURRENT working tree, rewrites it, writes the result to DIR and
// prints `REPLACED <original> <rewritten>`.  The rewritten file refers to hook
// functions (verifLock, verifYield, ...) that live in package core under the
// build tag `verif` (/verif/overlay/core/zz_verif_hook.go).
//
// Transformations (only syntax is used, no type information):
//
//	X.Lock()            -> verifLock(&X, site)         (yield, then TryLock loop that parks in the scheduler)
//	X.RLock()           -> verifRLock(&X, site)
//	ch <- v             -> verifYield(site,"send"); ch <- v; verifResume(site)
//	... <-ch ...        -> verifYield(site,"recv"); stmt; verifResume(site)      (return <-ch: verifAfter(<-ch, site))
//	select {...}        -> verifYield(site,"select"|"selectnb"); select { case ...: verifResume(site); ... }
//	                       with >= 2 communication cases: s := verifSelect(site, kind, chans, isSend) chooses among the
//	                       READY cases (instead of the runtime's random pick); each case channel becomes verifCase(s, i, ch)
//	X.Wait()            -> verifYield(site,"wait"); X.Wait(); verifResume(site)
//	go f(a, b)          -> { f0, a0, a1 := f, a, b; verifGo(site, func() { f0(a0, a1) }) }   (arguments evaluated at spawn time)
//	time.Now() ...      -> verifNow(), verifSince, verifNewTicker(d, site), verifNewTimer, verifAfterT, verifAfterFunc, verifSleep
//	for k, v := range M -> for _, k := range verifMapKeys(M, site) { v, ok := M[k]; if !ok { continue }; ... }
//	                       (only for the map expressions listed in the config; iteration order becomes a scheduler choice)
//
// site = "<file>:<line>:<func>[:<detail>]" with the line of the ORIGINAL file.
package main

import (
	"bytes"
	"encoding/json"
	"flag"
	"fmt"
	"go/ast"
	"go/parser"
	"go/printer"
	"go/token"
	"os"
	"path/filepath"
	"strconv"
	"strings"
)

type fileCfg struct {
	Path      string   `json:"path"`
	MapRanges []string `json:"mapRanges"` // printed form of range expressions that are maps
	SkipFuncs []string `json:"skipFuncs"` // functions left untouched
	// KnownRaces: simple statements whose printed text contains Match are bracketed by
	// verifKnownRace(id, true/false).  Under a race build the harness turns the bracket into an
	// acquire/release pair on one address, so that the listed accesses (a recorded, still open
	// finding) are ordered among themselves and the race detector can go on looking for others.
	KnownRaces []knownRace `json:"knownRaces"`
	// KnownRaceExprs: an expression (by printed text, optionally only inside Func) is replaced by Call, and Helper
	// (a function declaration) is appended to the file under //go:norace: the access of an open, recorded race
	// finding whose partner cannot be bracketed is made invisible to the race detector; behaviour is unchanged.
	KnownRaceExprs []knownRaceExpr `json:"knownRaceExprs"`
}
type knownRace struct {
	ID    string `json:"id"`
	Match string `json:"match"`
}
type knownRaceExpr struct {
	ID     string `json:"id"`
	Func   string `json:"func"`
	Expr   string `json:"expr"`
	Call   string `json:"call"`
	Helper string `json:"helper"`
}
type harnessCfg struct {
	Files []fileCfg `json:"files"`
}

func main() {
	repo := flag.String("repo", "/repo", "repository root")
	out := flag.String("out", "", "output directory")
	cfgPath := flag.String("config", "", "rewrite.json")
	harness := flag.String("harness", "", "harness (top-level key of the config)")
	flag.Parse()
	if *out == "" || *cfgPath == "" || *harness == "" {
		fmt.Fprintln(os.Stderr, "usage: rewrite -repo R -out DIR -config rewrite.json -harness NAME")
		os.Exit(2)
	}
	raw, err := os.ReadFile(*cfgPath)
	check(err)
	all := map[string]harnessCfg{}
	check(json.Unmarshal(raw, &all))
	hc, ok := all[*harness]
	if !ok {
		return
	}
	check(os.MkdirAll(*out, 0o755))
	for _, fc := range hc.Files {
		src := filepath.Join(*repo, fc.Path)
		dst := filepath.Join(*out, filepath.Base(filepath.Dir(fc.Path))+"__"+filepath.Base(fc.Path))
		code, stats, err := rewriteFile(src, fc)
		if err != nil {
			fmt.Fprintf(os.Stderr, "rewrite %s: %v\n", src, err)
			os.Exit(1)
		}
		check(os.WriteFile(dst, code, 0o644))
		absSrc, _ := filepath.Abs(src)
		absDst, _ := filepath.Abs(dst)
		fmt.Printf("REPLACED %s %s\n", absSrc, absDst)
		fmt.Fprintf(os.Stderr, "rewrite %s: %s\n", fc.Path, stats)
	}
}

func check(err error) {
	if err != nil {
		fmt.Fprintln(os.Stderr, "rewrite:", err)
		os.Exit(1)
	}
}

type rw struct {
	fset  *token.FileSet
	base  string
	fn    string
	cfg   fileCfg
	maps  map[string]bool
	count map[string]int
	tmp   int
	err   error
}

func (r *rw) site(pos token.Pos, detail string) ast.Expr {
	s := fmt.Sprintf("%s:%d:%s", r.base, r.fset.Position(pos).Line, r.fn)
	if detail != "" {
		s += ":" + detail
	}
	return &ast.BasicLit{Kind: token.STRING, Value: strconv.Quote(s)}
}

func str(s string) ast.Expr  { return &ast.BasicLit{Kind: token.STRING, Value: strconv.Quote(s)} }
func id(s string) *ast.Ident { return ast.NewIdent(s) }
func call(fn string, args ...ast.Expr) *ast.CallExpr {
	return &ast.CallExpr{Fun: id(fn), Args: args}
}
func callStmt(fn string, args ...ast.Expr) ast.Stmt { return &ast.ExprStmt{X: call(fn, args...)} }

func (r *rw) text(n ast.Node) string {
	var b bytes.Buffer
	printer.Fprint(&b, token.NewFileSet(), n)
	return b.String()
}

func rewriteFile(path string, fc fileCfg) ([]byte, string, error) {
	fset := token.NewFileSet()
	f, err := parser.ParseFile(fset, path, nil, parser.SkipObjectResolution)
	if err != nil {
		return nil, "", err
	}
	r := &rw{fset: fset, base: filepath.Base(path), cfg: fc, maps: map[string]bool{}, count: map[string]int{}}
	for _, m := range fc.MapRanges {
		r.maps[m] = true
	}
	skip := map[string]bool{}
	for _, s := range fc.SkipFuncs {
		skip[s] = true
	}
	for _, d := range f.Decls {
		fd, ok := d.(*ast.FuncDecl)
		if !ok || fd.Body == nil || skip[fd.Name.Name] {
			continue
		}
		r.fn = fd.Name.Name
		r.rewriteKnownExprs(fd.Body)
		r.rewriteTime(fd.Body)
		r.rewriteBody(fd.Body)
	}
	if r.err != nil {
		return nil, "", r.err
	}
	f.Comments = nil
	for _, d := range f.Decls {
		switch x := d.(type) {
		case *ast.FuncDecl:
			x.Doc = nil
		case *ast.GenDecl:
			x.Doc = nil
		}
	}
	var b bytes.Buffer
	fmt.Fprintf(&b, "// Code generated by /verif/tools/rewrite from %s; DO NOT EDIT.\n\n", path)
	if err := (&printer.Config{Mode: printer.UseSpaces | printer.TabIndent, Tabwidth: 8}).Fprint(&b, fset, f); err != nil {
		return nil, "", err
	}
	for _, k := range fc.KnownRaceExprs {
		if r.count["knownexpr:"+k.ID] > 0 {
			fmt.Fprintf(&b, "\n// %s: see rewrite.json knownRaceExprs\n//\n//go:norace\n%s\n", k.ID, k.Helper)
		}
	}
	// the result must parse
	if _, err := parser.ParseFile(token.NewFileSet(), "out.go", b.Bytes(), 0); err != nil {
		return nil, "", fmt.Errorf("rewritten file does not parse: %v", err)
	}
	keys := []string{"lock", "rlock", "send", "recv", "select", "selectnb", "select-gated", "wait", "go", "time", "maprange", "knownrace", "knownexpr"}
	stats := ""
	for _, k := range keys {
		stats += fmt.Sprintf("%s=%d ", k, r.count[k])
	}
	return b.Bytes(), stats, nil
}

var timeFuncs = map[string]struct {
	name string
	site bool
}{
	"Now": {"verifNow", false}, "Since": {"verifSince", false}, "Until": {"verifUntil", false},
	"NewTicker": {"verifNewTicker", true}, "NewTimer": {"verifNewTimer", true}, "After": {"verifAfterT", true},
	"AfterFunc": {"verifAfterFunc", true}, "Sleep": {"verifSleep", true}, "Tick": {"verifTick", true},
}

// rewriteKnownExprs replaces configured expressions (call arguments, operands, right-hand sides, results).
func (r *rw) rewriteKnownExprs(body *ast.BlockStmt) {
	for _, k := range r.cfg.KnownRaceExprs {
		if k.Func != "" && k.Func != r.fn {
			continue
		}
		repl := func(e *ast.Expr) {
			if *e != nil && r.text(*e) == k.Expr {
				n, err := parser.ParseExpr(k.Call)
				if err != nil {
					r.err = fmt.Errorf("knownRaceExprs %s: %v", k.ID, err)
					return
				}
				*e = n
				r.count["knownexpr:"+k.ID]++
				r.count["knownexpr"]++
			}
		}
		ast.Inspect(body, func(n ast.Node) bool {
			switch x := n.(type) {
			case *ast.CallExpr:
				for i := range x.Args {
					repl(&x.Args[i])
				}
			case *ast.BinaryExpr:
				repl(&x.X)
				repl(&x.Y)
			case *ast.AssignStmt:
				for i := range x.Rhs {
					repl(&x.Rhs[i])
				}
			case *ast.ReturnStmt:
				for i := range x.Results {
					repl(&x.Results[i])
				}
			}
			return true
		})
	}
}

// rewriteTime replaces time.X(...) calls everywhere in the body (including function literals).
func (r *rw) rewriteTime(body *ast.BlockStmt) {
	ast.Inspect(body, func(n ast.Node) bool {
		c, ok := n.(*ast.CallExpr)
		if !ok {
			return true
		}
		sel, ok := c.Fun.(*ast.SelectorExpr)
		if !ok {
			return true
		}
		pk, ok := sel.X.(*ast.Ident)
		if !ok || pk.Name != "time" {
			return true
		}
		tf, ok := timeFuncs[sel.Sel.Name]
		if !ok {
			return true
		}
		site := r.site(c.Pos(), sel.Sel.Name)
		c.Fun = id(tf.name)
		if tf.site {
			c.Args = append(c.Args, site)
		}
		r.count["time"]++
		return true
	})
}

// rewriteBody rewrites every statement list below body, innermost lists first.
func (r *rw) rewriteBody(body *ast.BlockStmt) {
	var lists []*[]ast.Stmt
	ast.Inspect(body, func(n ast.Node) bool {
		switch x := n.(type) {
		case *ast.BlockStmt:
			lists = append(lists, &x.List)
		case *ast.CaseClause:
			lists = append(lists, &x.Body)
		case *ast.CommClause:
			lists = append(lists, &x.Body)
		}
		return true
	})
	for i := len(lists) - 1; i >= 0; i-- {
		*lists[i] = r.rewriteList(*lists[i])
	}
}

func (r *rw) rewriteList(list []ast.Stmt) []ast.Stmt {
	var out []ast.Stmt
	for _, s := range list {
		out = append(out, r.rewriteStmt(s)...)
	}
	return out
}

// lockCall matches `X.Lock()` / `X.RLock()` / `X.Wait()`.
func methodCall(e ast.Expr, names ...string) (recv ast.Expr, name string, ok bool) {
	c, isCall := e.(*ast.CallExpr)
	if !isCall || len(c.Args) != 0 {
		return nil, "", false
	}
	sel, isSel := c.Fun.(*ast.SelectorExpr)
	if !isSel {
		return nil, "", false
	}
	for _, n := range names {
		if sel.Sel.Name == n {
			return sel.X, n, true
		}
	}
	return nil, "", false
}

// ownExprs lists the expressions evaluated by the statement itself (not by nested blocks).
func ownExprs(s ast.Stmt) []ast.Expr {
	switch x := s.(type) {
	case *ast.ExprStmt:
		return []ast.Expr{x.X}
	case *ast.AssignStmt:
		return append(append([]ast.Expr{}, x.Lhs...), x.Rhs...)
	case *ast.ReturnStmt:
		return x.Results
	case *ast.IncDecStmt:
		return []ast.Expr{x.X}
	case *ast.SendStmt:
		return []ast.Expr{x.Chan, x.Value}
	case *ast.DeferStmt:
		return []ast.Expr{x.Call}
	case *ast.GoStmt:
		return []ast.Expr{x.Call}
	case *ast.DeclStmt:
		var out []ast.Expr
		if gd, ok := x.Decl.(*ast.GenDecl); ok {
			for _, sp := range gd.Specs {
				if vs, ok := sp.(*ast.ValueSpec); ok {
					out = append(out, vs.Values...)
				}
			}
		}
		return out
	case *ast.IfStmt:
		out := []ast.Expr{x.Cond}
		if x.Init != nil {
			out = append(out, ownExprs(x.Init)...)
		}
		return out
	case *ast.ForStmt:
		var out []ast.Expr
		if x.Cond != nil {
			out = append(out, x.Cond)
		}
		if x.Init != nil {
			out = append(out, ownExprs(x.Init)...)
		}
		if x.Post != nil {
			out = append(out, ownExprs(x.Post)...)
		}
		return out
	case *ast.RangeStmt:
		return []ast.Expr{x.X}
	case *ast.SwitchStmt:
		var out []ast.Expr
		if x.Tag != nil {
			out = append(out, x.Tag)
		}
		if x.Init != nil {
			out = append(out, ownExprs(x.Init)...)
		}
		return out
	case *ast.LabeledStmt:
		return ownExprs(x.Stmt)
	}
	return nil
}

// hasRecv reports whether e contains a channel receive outside function literals.
func hasRecv(e ast.Expr) bool {
	found := false
	ast.Inspect(e, func(n ast.Node) bool {
		switch x := n.(type) {
		case *ast.FuncLit:
			return false
		case *ast.UnaryExpr:
			if x.Op == token.ARROW {
				found = true
			}
		}
		return !found
	})
	return found
}

func (r *rw) rewriteStmt(s ast.Stmt) []ast.Stmt {
	switch s.(type) {
	case *ast.ExprStmt, *ast.AssignStmt, *ast.IncDecStmt:
		if len(r.cfg.KnownRaces) > 0 {
			txt := r.text(s)
			for _, kr := range r.cfg.KnownRaces {
				if strings.Contains(txt, kr.Match) {
					r.count["knownrace"]++
					return []ast.Stmt{callStmt("verifKnownRace", str(kr.ID), id("true")), s, callStmt("verifKnownRace", str(kr.ID), id("false"))}
				}
			}
		}
	}
	switch x := s.(type) {
	case *ast.ExprStmt:
		if recv, name, ok := methodCall(x.X, "Lock", "RLock"); ok {
			fn, kind := "verifLock", "lock"
			if name == "RLock" {
				fn, kind = "verifRLock", "rlock"
			}
			r.count[kind]++
			return []ast.Stmt{callStmt(fn, &ast.UnaryExpr{Op: token.AND, X: recv}, r.site(x.Pos(), r.text(recv)+"."+name))}
		}
		if recv, _, ok := methodCall(x.X, "Wait"); ok {
			r.count["wait"]++
			site := r.site(x.Pos(), r.text(recv)+".Wait")
			return []ast.Stmt{callStmt("verifYield", site, str("wait")), s, callStmt("verifResume", site)}
		}
	case *ast.SendStmt:
		r.count["send"]++
		site := r.site(x.Pos(), "send "+r.text(x.Chan))
		return []ast.Stmt{callStmt("verifYield", site, str("send")), s, callStmt("verifResume", site)}
	case *ast.SelectStmt:
		return r.rewriteSelect(x)
	case *ast.GoStmt:
		r.count["go"]++
		return []ast.Stmt{r.rewriteGo(x)}
	case *ast.RangeStmt:
		if r.maps[r.text(x.X)] {
			if st := r.rewriteMapRange(x); st != nil {
				r.count["maprange"]++
				return []ast.Stmt{st}
			}
		}
	}
	// receives inside the statement's own expressions
	recv := false
	for _, e := range ownExprs(s) {
		if e != nil && hasRecv(e) {
			recv = true
		}
	}
	if !recv {
		return []ast.Stmt{s}
	}
	r.count["recv"]++
	site := r.site(s.Pos(), "recv")
	switch x := s.(type) {
	case *ast.ExprStmt, *ast.AssignStmt, *ast.DeclStmt:
		return []ast.Stmt{callStmt("verifYield", site, str("recv")), s, callStmt("verifResume", site)}
	case *ast.ReturnStmt:
		for i, e := range x.Results {
			if u, ok := e.(*ast.UnaryExpr); ok && u.Op == token.ARROW {
				x.Results[i] = call("verifAfter", u, site)
			} else if hasRecv(e) {
				r.err = fmt.Errorf("%s: receive nested inside a return expression is not supported", r.fset.Position(s.Pos()))
			}
		}
		return []ast.Stmt{callStmt("verifYield", site, str("recv")), s}
	default:
		r.err = fmt.Errorf("%s: channel receive in a %T is not supported by the rewriter", r.fset.Position(s.Pos()), s)
		return []ast.Stmt{s}
	}
}

// rewriteSelect: a select with one communication case only gets a yield in front.  With two or more, which
// READY case fires is the runtime's random choice; the rewritten form lets the scheduler choose:
//
//	c0, c1 := chA, chB
//	s := verifSelect(site, kind, []any{c0, c1}, []bool{false, true})   // yields, then picks among the ready cases
//	select { case v := <-verifCase(s, 0, c0): ...  case verifCase(s, 1, c1) <- x: ... }
//
// verifCase returns the channel for the chosen case (for every case if none is ready: the select then blocks and is
// completed by exactly one later operation of another goroutine) and a nil channel otherwise.
func (r *rw) rewriteSelect(x *ast.SelectStmt) []ast.Stmt {
	kind := "select"
	var comm []*ast.CommClause
	for _, c := range x.Body.List {
		cc := c.(*ast.CommClause)
		if cc.Comm == nil {
			kind = "selectnb"
		} else {
			comm = append(comm, cc)
		}
	}
	r.count[kind]++
	site := r.site(x.Pos(), "select")
	for _, cc := range comm {
		cc.Body = append([]ast.Stmt{callStmt("verifResume", site)}, cc.Body...)
	}
	if len(comm) < 2 {
		return []ast.Stmt{callStmt("verifYield", site, str(kind)), x}
	}
	r.tmp++
	sel := id(fmt.Sprintf("verifS%d", r.tmp))
	var lhs, rhs, chans, sends []ast.Expr
	for i, cc := range comm {
		var slot *ast.Expr
		send := "false"
		switch c := cc.Comm.(type) {
		case *ast.SendStmt:
			slot, send = &c.Chan, "true"
		case *ast.ExprStmt:
			if u, ok := c.X.(*ast.UnaryExpr); ok && u.Op == token.ARROW {
				slot = &u.X
			}
		case *ast.AssignStmt:
			if len(c.Rhs) == 1 {
				if u, ok := c.Rhs[0].(*ast.UnaryExpr); ok && u.Op == token.ARROW {
					slot = &u.X
				}
			}
		}
		if slot == nil {
			r.err = fmt.Errorf("%s: unsupported select case form", r.fset.Position(cc.Pos()))
			return []ast.Stmt{x}
		}
		v := id(fmt.Sprintf("verifC%d_%d", r.tmp, i))
		lhs, rhs = append(lhs, v), append(rhs, *slot)
		chans, sends = append(chans, v), append(sends, id(send))
		*slot = call("verifCase", sel, &ast.BasicLit{Kind: token.INT, Value: strconv.Itoa(i)}, v)
	}
	r.count["select-gated"]++
	anySlice := &ast.ArrayType{Elt: id("any")}
	boolSlice := &ast.ArrayType{Elt: id("bool")}
	return []ast.Stmt{
		&ast.AssignStmt{Lhs: lhs, Tok: token.DEFINE, Rhs: rhs},
		&ast.AssignStmt{Lhs: []ast.Expr{sel}, Tok: token.DEFINE, Rhs: []ast.Expr{call("verifSelect", site, str(kind),
			&ast.CompositeLit{Type: anySlice, Elts: chans}, &ast.CompositeLit{Type: boolSlice, Elts: sends})}},
		x,
	}
}

// rewriteGo turns `go f(a...)` into a block that evaluates f and its arguments now and hands a closure to verifGo.
func (r *rw) rewriteGo(g *ast.GoStmt) ast.Stmt {
	c := g.Call
	name := "func"
	switch f := c.Fun.(type) {
	case *ast.SelectorExpr:
		name = f.Sel.Name
	case *ast.Ident:
		name = f.Name
	}
	site := r.site(g.Pos(), "go "+name)
	if fl, ok := c.Fun.(*ast.FuncLit); ok && len(c.Args) == 0 {
		return callStmt("verifGo", site, fl)
	}
	r.tmp++
	var lhs, rhs []ast.Expr
	fv := id(fmt.Sprintf("verifF%d", r.tmp))
	lhs, rhs = append(lhs, fv), append(rhs, c.Fun)
	inner := &ast.CallExpr{Fun: fv, Ellipsis: c.Ellipsis}
	for i, a := range c.Args {
		v := id(fmt.Sprintf("verifA%d_%d", r.tmp, i))
		lhs, rhs = append(lhs, v), append(rhs, a)
		inner.Args = append(inner.Args, v)
	}
	if c.Ellipsis != token.NoPos {
		inner.Ellipsis = 1
	}
	closure := &ast.FuncLit{Type: &ast.FuncType{Params: &ast.FieldList{}}, Body: &ast.BlockStmt{List: []ast.Stmt{&ast.ExprStmt{X: inner}}}}
	return &ast.BlockStmt{List: []ast.Stmt{
		&ast.AssignStmt{Lhs: lhs, Tok: token.DEFINE, Rhs: rhs},
		callStmt("verifGo", site, closure),
	}}
}

// rewriteMapRange: for k, v := range M { B }  ->  for _, k := range verifMapKeys(M, site) { v, ok := M[k]; if !ok { continue }; B }
func (r *rw) rewriteMapRange(x *ast.RangeStmt) ast.Stmt {
	if x.Tok != token.DEFINE {
		return nil
	}
	r.tmp++
	var key *ast.Ident
	if k, ok := x.Key.(*ast.Ident); ok && k.Name != "_" {
		key = k
	} else {
		key = id(fmt.Sprintf("verifK%d", r.tmp))
	}
	okv := id(fmt.Sprintf("verifOk%d", r.tmp))
	var val ast.Expr = id("_")
	if v, ok := x.Value.(*ast.Ident); ok && v.Name != "_" {
		val = v
	}
	pre := []ast.Stmt{
		&ast.AssignStmt{Lhs: []ast.Expr{val, okv}, Tok: token.DEFINE, Rhs: []ast.Expr{&ast.IndexExpr{X: x.X, Index: key}}},
		&ast.IfStmt{Cond: &ast.UnaryExpr{Op: token.NOT, X: okv}, Body: &ast.BlockStmt{List: []ast.Stmt{&ast.BranchStmt{Tok: token.CONTINUE}}}},
	}
	body := &ast.BlockStmt{List: append(pre, x.Body.List...)}
	return &ast.RangeStmt{Key: id("_"), Value: key, Tok: token.DEFINE,
		X: call("verifMapKeys", x.X, r.site(x.Pos(), "range "+r.text(x.X))), Body: body}
}
