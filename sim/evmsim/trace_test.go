package evmsim

import (
	"encoding/binary"
	"errors"
	"fmt"
	"math"
	"math/big"
	"os"
	"strings"
	"time"

	"github.com/dominant-strategies/go-quai/common"
	"github.com/dominant-strategies/go-quai/core/state"
	"github.com/dominant-strategies/go-quai/core/types"
	"github.com/dominant-strategies/go-quai/core/vm"
	"github.com/dominant-strategies/go-quai/crypto"
	"github.com/dominant-strategies/go-quai/ethdb"
	"github.com/dominant-strategies/go-quai/params"
	"github.com/dominant-strategies/go-quai/rlp"
	"github.com/holiman/uint256"

	"verif/sim/simkit"
)

// ---------------------------------------------------------------- trace-guided model

type stepRec struct {
	depth int
	gas   uint64
	op    vm.OpCode
}

// etxModel is one outbound operation that reported success.
type etxModel struct {
	kind  string // ETX | CONVERT | CALL-external | lockup-claim | lockup-unwrap
	tx    *types.Transaction
	debit *big.Int // what the operation states it takes from a Quai balance (value + prepaid fee); zero for lockup kinds
	value *big.Int // Quai the recorded ETX carries out of this ledger; zero for lockup kinds
	cond  string   // the harness's own reading of the operation's arguments ("ok", "overflow-wrapped", ...)
}

type sdModel struct {
	self, beneficiary common.Address
	refund            *big.Int // state-rent refund minted to the beneficiary
	burn              *big.Int // destroyed on the spot (beneficiary == self)
}

type writeRec struct {
	addr common.Address
	slot common.Hash
	val  common.Hash
}

type frame struct {
	depth    int
	self     common.Address
	fail     string // "" = completed
	etxs     []*etxModel
	sds      []*sdModel
	writes   []writeRec
	logs     int
	claims   int
	creates  int
	returned bool
	retSize  uint64
	retFirst byte
}

// opRec is an operation whose outcome is read at the next step of the same frame.
type opRec struct {
	op           vm.OpCode
	kind         string
	depth        int
	self         common.Address
	stackLen     int
	pops         int
	args         []uint256.Int // top of stack first
	mem          []byte        // access-list blob (ETX) or call input (lockup)
	pre          *snap
	selfBal      *big.Int
	etxLen       int
	target       common.Address
	childEntered bool
	lockPre      string
	lockSeed     int
	wrappedPre   *big.Int
}

type regime struct {
	ptn, blockNumber uint64
	quaiStateSize    *big.Int
	baseFee          *big.Int
	gasPrice         *big.Int
	eligMask         int
}

func (r *regime) postSD() bool { return r.ptn >= params.SelfDestructRefundForkBlock }
func (r *regime) eligible(l common.Location) bool {
	return r.eligMask>>(uint(l.Region()*3+l.Zone())%6)&1 == 1
}
func (r *regime) forkTag() string {
	if r.postSD() {
		return "fork=post-sd"
	}
	return "fork=pre-sd"
}
func (r *regime) sdRefund() *big.Int {
	return new(big.Int).Mul(r.baseFee, new(big.Int).SetUint64(params.CallNewAccountGas(r.quaiStateSize)))
}

type tracer struct {
	w               *world
	rg              *regime
	st              *state.StateDB
	batch           ethdb.Batch
	txHash          common.Hash
	prop            string
	viol            *violation
	dead            bool
	innerEtxDropped bool
	desync          bool // a failed frame was not (fully) reverted: only C12 judges the rest of this pass
	enforce         bool // re-enable access-list enforcement (vm.Config.Debug switches it off)
	inject          int  // step index at which the running frame loses all its gas; -1 = never
	tr              *simkit.Trace
	record          bool // emit trace events (ample pass only)

	env       *vm.EVM
	started   bool
	ended     bool
	topErr    error
	startGas  uint64
	frames    []*frame
	pend      [1030]*opRec
	steps     []stepRec
	survivor  *frame
	top       *frame
	maxDepth  int
	failed    map[string]int // failure kind -> count
	injected  bool
	burnAtEnd *big.Int // balances still held by self-destructed accounts when the top frame ends
	zeroAtEnd *big.Int // balance of the zero address when the top frame ends (inbound ETXs run out of it)
	touched   []common.Address
	// claimsTotal counts the successful lockup claims of the transaction in any frame, including frames that failed later
	claimsTotal int
	// outOfScope: every address the run pointed a creation or value at that may lie outside this zone's Quai ledger (C16)
	outOfScope []common.Address
	slotsSeen  map[common.AddressBytes]map[common.Hash]bool
	counts     map[string]int
	created    []common.Address
	memPrev    [1030]memStep // C15: per depth, the memory size and charged cost seen at the previous step of that frame
}

type memStep struct {
	valid bool
	len   int
	gas   uint64 // gas available before the step
	op    vm.OpCode
	grew  uint64 // memory-expansion price of the growth this step caused
}

// memoryGas is the protocol's price of a memory of n bytes (3 gas per word plus words^2/512).
func memoryGas(n int) uint64 {
	w := uint64((n + 31) / 32)
	return 3*w + w*w/512
}

func newTracer(w *world, rg *regime, st *state.StateDB, batch ethdb.Batch, txHash common.Hash) *tracer {
	return &tracer{w: w, rg: rg, st: st, batch: batch, txHash: txHash, inject: -1, failed: map[string]int{}, counts: map[string]int{},
		slotsSeen: map[common.AddressBytes]map[common.Hash]bool{}, burnAtEnd: new(big.Int)}
}

func classify(err error) string {
	switch {
	case err == nil:
		return ""
	case errors.Is(err, vm.ErrExecutionReverted):
		return "revert"
	case errors.Is(err, vm.ErrOutOfGas):
		return "oog"
	case errors.Is(err, vm.ErrCodeStoreOutOfGas):
		return "code-store-out-of-gas"
	case errors.Is(err, vm.ErrWriteProtection):
		return "write-protection"
	case errors.Is(err, vm.ErrInvalidAccessList):
		return "invalid-access-list"
	case errors.Is(err, vm.ErrInvalidJump):
		return "invalid-jump"
	case errors.Is(err, vm.ErrInvalidCode):
		return "invalid-code"
	case errors.Is(err, vm.ErrMaxCodeSizeExceeded):
		return "max-code-size"
	case errors.Is(err, vm.ErrDepth):
		return "depth"
	case errors.Is(err, vm.ErrInsufficientBalance):
		return "insufficient-balance"
	case errors.Is(err, common.ErrExternalAddress):
		return "external-address"
	case errors.Is(err, vm.ErrGasUintOverflow):
		return "gas-overflow"
	}
	s := err.Error()
	switch {
	case strings.Contains(s, "invalid opcode"):
		return "invalid-opcode"
	case strings.Contains(s, "stack underflow"):
		return "stack-underflow"
	case strings.Contains(s, "stack limit"):
		return "stack-overflow"
	case strings.Contains(s, "expected Quai address"):
		return "qi-address"
	}
	return "other"
}

func (t *tracer) touch(a common.Address) {
	t.touched = append(t.touched, a)
	if a.Bytes()[0] != loc.BytePrefix() || a.IsInQiLedgerScope() {
		t.outOfScope = append(t.outOfScope, a)
	}
	t.w.know(a)
}

func (t *tracer) CaptureStart(env *vm.EVM, from common.Address, to common.Address, create bool, input []byte, gas uint64, value *big.Int) {
	t.env, t.started, t.startGas = env, true, gas
	if t.enforce {
		env.StateDB.ConfigureAccessListChecks(true)
	}
	t.frames = append(t.frames[:0], &frame{depth: 1, self: to})
	t.w.know(to)
	if create {
		t.created = append(t.created, to)
	}
}

func (t *tracer) CaptureEnd(output []byte, gasUsed uint64, _ time.Duration, err error) {
	t.ended, t.topErr = true, err
	if t.dead {
		return
	}
	if len(t.frames) > 0 {
		top := t.frames[0]
		t.top = top
		if err != nil {
			if top.fail == "" {
				top.fail = classify(err)
			}
			t.noteFailure(top)
		} else {
			t.survivor = top
		}
	}
	t.frames = t.frames[:0]
	t.zeroAtEnd = new(big.Int).Set(t.st.GetBalance(mustInternal(zeroAddr)))
	for _, a := range t.w.known {
		if ia := mustInternal(a); t.st.HasSuicided(ia) {
			t.burnAtEnd.Add(t.burnAtEnd, t.st.GetBalance(ia))
		}
	}
}

// sync brings the frame stack in line with the depth of the current interpreter event.
func (t *tracer) sync(depth int, scope *vm.ScopeContext) (popped *frame) {
	switch {
	case depth == len(t.frames)+1:
		f := &frame{depth: depth, self: scope.Contract.Address()}
		if p := t.pend[depth-1]; p != nil {
			p.childEntered = true
		} else {
			panic("evmsim: frame entered without a pending call operation")
		}
		t.frames = append(t.frames, f)
		t.w.know(f.self)
		if depth > t.maxDepth {
			t.maxDepth = depth
		}
	case depth == len(t.frames)-1:
		popped = t.frames[len(t.frames)-1]
		t.frames = t.frames[:len(t.frames)-1]
	case depth != len(t.frames):
		panic(fmt.Sprintf("evmsim: interpreter depth jumped from %d to %d", len(t.frames), depth))
	}
	if depth > t.maxDepth {
		t.maxDepth = depth
	}
	return popped
}

func (t *tracer) noteFailure(f *frame) {
	t.failed[f.fail]++
	simkit.Global.Inc(fmt.Sprintf("fault.%s_at_depth%d", strings.ReplaceAll(f.fail, "-", "_"), min(f.depth, 4)))
	if len(f.etxs) > 0 {
		simkit.Global.Inc("probe.etx_emitted_then_reverted")
		if f.depth >= 2 {
			t.innerEtxDropped = true
		}
	}
	if f.claims > 0 {
		simkit.Global.Inc("probe.lockup_claim_in_reverted_frame")
	}
	if len(f.sds) > 0 {
		simkit.Global.Inc("probe.selfdestruct_then_reverted")
	}
	if f.creates > 0 {
		simkit.Global.Inc("probe.create_then_reverted")
	}
	if f.depth >= 3 {
		simkit.Global.Inc("probe.failure_at_depth3plus")
	}
}

func (t *tracer) CaptureFault(env *vm.EVM, pc uint64, op vm.OpCode, gas, cost uint64, scope *vm.ScopeContext, depth int, err error) {
	t.env = env
	if t.dead {
		return
	}
	if popped := t.sync(depth, scope); popped != nil && popped.fail == "" {
		popped.fail = "parent-aborted"
	}
	f := t.frames[depth-1]
	f.fail = classify(err)
	t.pend[depth] = nil
	if debugSteps {
		fmt.Printf("fault depth=%d %s: %v\n", depth, op, err)
	}
}

func (t *tracer) CaptureState(env *vm.EVM, pc uint64, op vm.OpCode, gas, cost uint64, scope *vm.ScopeContext, rData []byte, depth int, err error, _ common.Location) {
	t.env = env
	if t.dead {
		return
	}
	popped := t.sync(depth, scope)
	if p := t.pend[depth]; p != nil {
		t.pend[depth] = nil
		t.resolve(p, scope, popped)
	} else if popped != nil {
		panic("evmsim: frame returned into a frame without a pending call operation")
	}
	if t.prop == "C15" {
		// Interpreter memory may only grow through a step that is charged at least the memory-expansion price of that growth.
		// The interpreter resizes memory for an operation before it reports the step, so the growth caused by step i is visible at
		// step i; what step i was charged in total (static + dynamic + any gas it forwards) is known at the next step of the frame.
		cur := scope.Memory.Len()
		p := &t.memPrev[depth]
		if p.valid {
			if p.grew > 0 && gas <= p.gas {
				charged := p.gas - gas
				if charged < p.grew {
					t.violate("C15", "mem-charged", "op="+p.op.String(), "step %s at depth %d grew the frame's memory to %d bytes (expansion price %d gas) but was charged %d gas in total", p.op, depth, p.len, p.grew, charged)
				}
				simkit.Global.Inc("probe.memory_growth_checked")
			}
			grew := uint64(0)
			if cur > p.len {
				grew = memoryGas(cur) - memoryGas(p.len)
				simkit.Global.Seen("memgrow_op", op.String())
				if grew > 10000 {
					simkit.Global.Inc("probe.large_memory_expansion")
				}
			}
			*p = memStep{valid: true, len: cur, gas: gas, op: op, grew: grew}
		} else {
			*p = memStep{valid: true, len: cur, gas: gas, op: op, grew: memoryGas(cur)}
		}
		for d := depth + 1; d < len(t.memPrev) && t.memPrev[d].valid; d++ {
			t.memPrev[d].valid = false // deeper frames have ended
		}
	}
	f := t.frames[depth-1]
	idx := len(t.steps)
	t.steps = append(t.steps, stepRec{depth, gas, op})
	if debugSteps {
		fmt.Printf("step %d depth=%d pc=%d %s gas=%d err=%v self=%x\n", idx, depth, pc, op, gas, err, scope.Contract.Address().Bytes()[18:])
	}
	if err != nil { // the operation is not executed: the frame dies here
		f.fail = classify(err)
		return
	}
	if idx == t.inject {
		scope.Contract.Gas = 0
		t.injected = true
	}
	stack := scope.Stack.Data()
	arg := func(i int) *uint256.Int { return &stack[len(stack)-1-i] }
	toAddr := func(v *uint256.Int) common.Address { return common.Bytes20ToAddress(v.Bytes20(), loc) }
	self := scope.Contract.Address()
	pendOp := func(kind string, pops int, target common.Address) *opRec {
		o := &opRec{op: op, kind: kind, depth: depth, self: self, stackLen: len(stack), pops: pops, target: target, lockSeed: -1}
		for i := 0; i < pops; i++ {
			o.args = append(o.args, *arg(i))
		}
		o.pre = t.w.digest(t.st, env, t.batch, t.txHash)
		o.selfBal = new(big.Int).Set(t.st.GetBalance(mustInternal(self)))
		env.ETXCacheLock.RLock()
		o.etxLen = len(env.ETXCache)
		env.ETXCacheLock.RUnlock()
		t.pend[depth] = o
		t.counts[kind]++
		if t.record {
			t.tr.Event("d%d %s", depth, kind)
		}
		return o
	}
	switch op {
	case vm.SSTORE:
		slot, val := common.Hash(arg(0).Bytes32()), common.Hash(arg(1).Bytes32())
		f.writes = append(f.writes, writeRec{self, slot, val})
		m := t.slotsSeen[self.Bytes20()]
		if m == nil {
			m = map[common.Hash]bool{}
			t.slotsSeen[self.Bytes20()] = m
		}
		m[slot] = true
		t.counts["SSTORE"]++
	case vm.SLOAD:
		m := t.slotsSeen[self.Bytes20()]
		if m == nil {
			m = map[common.Hash]bool{}
			t.slotsSeen[self.Bytes20()] = m
		}
		m[common.Hash(arg(0).Bytes32())] = true
	case vm.TSTORE:
		t.counts["TSTORE"]++
	case vm.LOG0, vm.LOG1, vm.LOG2, vm.LOG3, vm.LOG4:
		f.logs++
		t.counts["LOG"]++
	case vm.RETURN:
		f.returned = true
		f.retSize = arg(1).Uint64()
		if off := arg(0).Uint64(); f.retSize > 0 && off < uint64(scope.Memory.Len()) {
			f.retFirst = scope.Memory.Data()[off]
		}
	case vm.SELFDESTRUCT:
		ben := toAddr(arg(0))
		t.touch(ben)
		sd := &sdModel{self: self, beneficiary: ben, refund: new(big.Int), burn: new(big.Int)}
		is := mustInternal(self)
		if !t.rg.postSD() || !t.st.HasSuicided(is) {
			sd.refund = t.rg.sdRefund()
		}
		if ben.Equal(self) {
			sd.burn = new(big.Int).Add(t.st.GetBalance(is), sd.refund)
		}
		f.sds = append(f.sds, sd) // if the operation faults the whole frame is dropped anyway
		t.counts["SELFDESTRUCT"]++
		if t.record {
			t.tr.Event("d%d SELFDESTRUCT", depth)
		}
	case vm.CALL, vm.CALLCODE:
		target := toAddr(arg(1))
		t.touch(target)
		kind := op.String()
		if op == vm.CALL {
			switch {
			case target.Equal(lockupAddr):
				kind = "CALL-lockup"
			case !common.IsInChainScope(target.Bytes(), loc) || target.IsInQiLedgerScope():
				kind = "CALL-external"
			}
		}
		o := pendOp(kind, 7, target)
		if kind == "CALL-lockup" {
			o.mem = scope.Memory.GetCopy(int64(arg(3).Uint64()), int64(arg(4).Uint64()))
			t.prepLockup(o)
		}
	case vm.DELEGATECALL, vm.STATICCALL:
		target := toAddr(arg(1))
		t.touch(target)
		pendOp(op.String(), 6, target)
	case vm.CREATE:
		pendOp("CREATE", 3, common.Address{})
		f.creates++
	case vm.CREATE2:
		o := pendOp("CREATE2", 4, common.Address{})
		init := scope.Memory.GetCopy(int64(arg(1).Uint64()), int64(arg(2).Uint64()))
		o.target = crypto.CreateAddress2(self, arg(3).Bytes32(), crypto.Keccak256(init), loc)
		t.outOfScope = append(t.outOfScope, o.target)
		f.creates++
	case vm.ETX:
		o := pendOp("ETX", 10, toAddr(arg(1)))
		o.mem = scope.Memory.GetCopy(int64(arg(8).Uint64()), int64(arg(9).Uint64()))
	case vm.CONVERT:
		pendOp("CONVERT", 4, toAddr(arg(1)))
	}
}

// prepLockup notes the ledger entries a lockup-precompile call is about to act on.
func (t *tracer) prepLockup(o *opRec) {
	switch len(o.mem) {
	case 53:
		miner := common.BytesToAddress(o.mem[:20], loc)
		lb, ep := o.mem[40], binary.BigEndian.Uint32(o.mem[41:45])
		for i, s := range t.w.seeds {
			if s.owner.Equal(o.self) && s.miner.Equal(miner) && s.lockupByte == lb && s.epoch == ep {
				o.lockSeed, o.lockPre = i, t.w.readLock(t.batch, s)
			}
		}
	case 60:
		o.wrappedPre = t.st.GetState(mustInternal(lockupAddr), wrappedKey(o.self)).Big()
	}
}

// violate records the first violation of the property under test; it is raised from one place after
// core.ApplyTransaction has returned (so that rapid sees one failure site whatever the call depth), and
// the tracer goes inert meanwhile.
func (t *tracer) violate(prop, class, witness, format string, args ...any) {
	if prop == t.prop && t.viol == nil {
		t.viol = &violation{prop, class, witness, fmt.Sprintf(format, args...)}
		t.dead = true
	}
}

type violation struct{ prop, class, witness, detail string }

var debugSteps = os.Getenv("EVMSIM_DEBUG") != ""

// resolve reads the outcome of operation o at the next step of its frame and runs the per-operation oracles.
func (t *tracer) resolve(o *opRec, scope *vm.ScopeContext, child *frame) {
	stack := scope.Stack.Data()
	f := t.frames[o.depth-1]
	heightOK := len(stack) == o.stackLen-o.pops+1
	isOutOp := o.kind == "ETX" || o.kind == "CONVERT"
	if !heightOK && !isOutOp {
		panic(fmt.Sprintf("evmsim: stack height after %s is %d, expected %d", o.kind, len(stack), o.stackLen-o.pops+1))
	}
	status := "missing"
	var word uint256.Int
	if heightOK {
		word = stack[len(stack)-1]
		status = "0"
		if !word.IsZero() {
			status = "1"
		}
	}
	env := t.env
	env.ETXCacheLock.RLock()
	cache := append([]*types.Transaction(nil), env.ETXCache...)
	env.ETXCacheLock.RUnlock()
	selfBal := t.st.GetBalance(mustInternal(o.self))
	if selfBal.Sign() < 0 {
		t.violate("C02", "negative-balance", "op="+o.kind, "balance of %x is %v after %s", o.self.Bytes(), selfBal, o.kind)
	}

	// ---- did the frame / operation fail?
	failed, cause := status != "1", "no-frame"
	if child != nil {
		switch {
		case child.fail != "":
			failed, cause = true, child.fail
			if status == "1" {
				t.violate("C12", "frame-digest", fmt.Sprintf("op=%s cause=%s failed-frame-reported-success", o.kind, cause), "child frame failed with %s, caller sees status 1", cause)
			}
		case status != "1": // the frame completed, the operation was rejected afterwards (contract creation)
			cause = "deposit-rejected"
			maxCode := uint64(params.GetMaxCodeSize(t.rg.blockNumber))
			switch {
			case child.returned && child.retSize > maxCode:
				cause = "max-code-size"
			case child.returned && child.retSize > 0 && child.retFirst == 0xEF:
				cause = "invalid-code-prefix"
			case child.returned:
				cause = "code-store-out-of-gas"
			}
		}
	}
	if o.kind == "CREATE" || o.kind == "CREATE2" {
		if status == "1" {
			created := common.Bytes20ToAddress(word.Bytes20(), loc)
			t.touch(created)
			t.created = append(t.created, created)
			// C16: contract creation yields an in-zone Quai address or fails
			if created.Bytes()[0] != loc.BytePrefix() || created.IsInQiLedgerScope() {
				t.violate("C16", "creation-scope", "op="+o.kind+" created-out-of-scope", "%s reports the new contract %x, which is not an in-zone Quai-ledger address", o.kind, created.Bytes())
			}
			if o.kind == "CREATE2" && created.Bytes20() != o.target.Bytes20() {
				t.violate("C16", "creation-scope", "op=CREATE2 address-not-derived", "CREATE2 reports %x, the derivation from creator, salt and init code gives %x", created.Bytes(), o.target.Bytes())
			}
		} else if o.kind == "CREATE2" && (o.target.Bytes()[0] != loc.BytePrefix() || o.target.IsInQiLedgerScope()) {
			t.counts["CREATE2-out-of-scope-refused"]++
			if t.st.Exist(common.InternalAddress(o.target.Bytes20())) {
				t.violate("C16", "creation-scope", "op=CREATE2 failed-creation-left-account qi="+fmt.Sprint(o.target.IsInQiLedgerScope()), "CREATE2 towards %x (zone byte %#x, qi ledger %v) reported failure but the account now exists with nonce %d", o.target.Bytes(), o.target.Bytes()[0], o.target.IsInQiLedgerScope(), t.st.GetNonce(common.InternalAddress(o.target.Bytes20())))
			}
		}
	}

	// ---- C12: a failed message call / creation leaves no trace (ETX and CONVERT are not calls: C05 judges them)
	if failed && isOutOp {
		// nothing to merge, nothing to compare here
	} else if failed {
		post := t.w.digest(t.st, env, t.batch, t.txHash)
		d := diff(o.pre, post)
		if o.kind == "CREATE" || o.kind == "CREATE2" { // the creator's nonce bump belongs to the creator's frame, not to the failed one
			kept := d[:0]
			for _, l := range d {
				if !strings.HasPrefix(l, fmt.Sprintf("nonce[%x]", o.self.Bytes())) {
					kept = append(kept, l)
				}
			}
			d = kept
		}
		if len(d) > 0 {
			// for the other properties: the model drops a failed frame's effects, the node kept some of them, so
			// the model's transaction-level predictions no longer apply to this pass
			for _, l := range d {
				if !strings.HasPrefix(l, "pending-etx") { // (a stale pending ETX alone is for the outbound-list oracle to judge)
					t.desync = true
				}
			}
			t.violate("C12", "frame-digest", fmt.Sprintf("op=%s cause=%s field=%s inside=%s", o.kind, cause, diffKinds(d), inside(child)),
				"world at entry of the %s at depth %d differs from the world after it failed (%s, status word %s):\n  %s", o.kind, o.depth, cause, status, strings.Join(d, "\n  "))
		}
		if child != nil {
			if child.fail == "" {
				child.fail = cause
			}
			t.noteFailure(child)
		}
	} else if child != nil { // completed: its surviving effects become the caller's
		f.etxs = append(f.etxs, child.etxs...)
		f.sds = append(f.sds, child.sds...)
		f.writes = append(f.writes, child.writes...)
		f.logs += child.logs
		f.claims += child.claims
		f.creates += child.creates
	}

	// ---- C05: outbound operations are all-or-nothing
	debit := new(big.Int).Sub(o.selfBal, selfBal)
	newEtx := len(cache) - o.etxLen
	var etx *types.Transaction
	if newEtx == 1 {
		etx = cache[o.etxLen]
	}
	out := func(what, cond string) string {
		return fmt.Sprintf("op=%s status=%s %s cond=%s %s", o.kind, status, what, cond, t.rg.forkTag())
	}
	checkEtx := func(cond string, etype uint64, to common.Address, value *big.Int, gasWant *uint64) {
		var bad []string
		if etx.EtxType() != etype {
			bad = append(bad, fmt.Sprintf("type %d want %d", etx.EtxType(), etype))
		}
		if etx.To() == nil || !etx.To().Equal(to) {
			bad = append(bad, fmt.Sprintf("to %v want %x", etx.To(), to.Bytes()))
		}
		if etx.Value().Cmp(value) != 0 {
			bad = append(bad, fmt.Sprintf("value %v want %v", etx.Value(), value))
		}
		if etx.ETXIndex() != uint16(o.etxLen) || o.etxLen > math.MaxUint16 {
			bad = append(bad, fmt.Sprintf("index %d want %d", etx.ETXIndex(), o.etxLen))
		}
		if s := etx.ETXSender(); !s.Equal(o.self) {
			bad = append(bad, fmt.Sprintf("sender %x want %x", s.Bytes(), o.self.Bytes()))
		}
		if etx.OriginatingTxHash() != t.txHash {
			bad = append(bad, "originating tx hash")
		}
		if gasWant != nil && etx.Gas() != *gasWant {
			bad = append(bad, fmt.Sprintf("gas %d want %d", etx.Gas(), *gasWant))
		}
		if len(bad) > 0 {
			t.violate("C05", "op-atomicity", out("etx-fields", cond), "recorded ETX does not carry the operation's arguments: %s", strings.Join(bad, "; "))
		}
	}
	switch o.kind {
	case "ETX", "CONVERT":
		cond, total, value, gl := t.outCond(o)
		if newEtx == 1 { // recorded: it leaves with the block if the frame survives, whatever else is wrong
			f.etxs = append(f.etxs, &etxModel{kind: o.kind, tx: etx, debit: total, value: etx.Value(), cond: cond})
		}
		if !heightOK {
			t.violate("C05", "op-atomicity", out("no-status-word", cond), "stack height %d before, %d after (the operation pops %d and must push 1): debit %v, new ETXs %d", o.stackLen, len(stack), o.pops, debit, newEtx)
		}
		if status == "1" {
			switch {
			case newEtx != 1:
				t.violate("C05", "op-atomicity", out("success-without-etx", cond), "status 1 with %d new ETXs (debit %v)", newEtx, debit)
			case debit.Cmp(total) != 0:
				t.violate("C05", "op-atomicity", out("debit-mismatch", cond), "status 1: sender debited %v, stated value+fee is %v (value %v)", debit, total, value)
			default:
				g := gl.Uint64()
				etype := uint64(types.DefaultType)
				if o.kind == "CONVERT" {
					etype = types.ConversionType
				}
				checkEtx(cond, etype, o.target, value, &g)
			}
		} else {
			if debit.Sign() != 0 && newEtx == 0 {
				t.violate("C05", "op-atomicity", out("debit-without-etx", cond), "sender debited %v although the operation failed and no ETX was recorded", debit)
				// the same event seen by the Quai-ledger property: value left the ledger with nothing carrying it
				t.violate("C02", "value-destroyed", fmt.Sprintf("op=%s status=%s debit-without-etx cond=%s", o.kind, status, cond), "%v debited by a failed %s", debit, o.kind)
			}
			if newEtx != 0 {
				t.violate("C05", "op-atomicity", out("etx-without-success", cond), "%d ETX recorded although the operation failed (debit %v)", newEtx, debit)
			}
		}
	case "CALL-external":
		value := o.args[2].ToBig()
		cond := "dest=" + map[bool]string{true: "local-qi", false: "other-chain"}[common.IsInChainScope(o.target.Bytes(), loc)]
		if newEtx == 1 {
			f.etxs = append(f.etxs, &etxModel{kind: o.kind, tx: etx, debit: value, value: etx.Value()})
		}
		if status == "1" {
			switch {
			case newEtx != 1:
				t.violate("C05", "op-atomicity", out("success-without-etx", cond), "status 1 with %d new ETXs (debit %v)", newEtx, debit)
			case debit.Cmp(value) != 0:
				t.violate("C05", "op-atomicity", out("debit-mismatch", cond), "status 1: sender debited %v, value is %v", debit, value)
			default:
				etype := uint64(types.DefaultType)
				if common.IsInChainScope(o.target.Bytes(), loc) {
					etype = types.ConversionType
				}
				checkEtx(cond, etype, o.target, value, nil)
			}
		} else if debit.Sign() != 0 || newEtx != 0 {
			t.violate("C05", "op-atomicity", out("effects-without-success", cond), "failed call out of scope: debit %v, new ETXs %d", debit, newEtx)
		}
	case "CALL-lockup":
		if newEtx == 1 {
			f.etxs = append(f.etxs, &etxModel{kind: "lockup", tx: etx, debit: new(big.Int), value: new(big.Int)})
		}
		switch len(o.mem) {
		case 53:
			lockPost := ""
			if o.lockSeed >= 0 {
				lockPost = t.w.readLock(t.batch, t.w.seeds[o.lockSeed])
			}
			if status == "1" {
				gl := binary.BigEndian.Uint64(o.mem[45:53])
				switch {
				case newEtx != 1 || o.lockSeed < 0:
					t.violate("C05", "op-atomicity", out("success-without-etx", "fn=claim-coinbase"), "status 1 with %d new ETXs (known lockup record: %v)", newEtx, o.lockSeed >= 0)
				case !strings.HasPrefix(lockPost, "0/0/0/"):
					t.violate("C05", "op-atomicity", out("claim-without-delete", "fn=claim-coinbase"), "status 1 but the lockup record is still %s", lockPost)
				default:
					checkEtx("fn=claim-coinbase", types.CoinbaseLockupType, common.BytesToAddress(o.mem[20:40], loc), t.w.seeds[o.lockSeed].balance, &gl)
					f.claims++
					t.claimsTotal++
				}
			} else if newEtx != 0 || lockPost != o.lockPre {
				t.violate("C05", "op-atomicity", out("effects-without-success", "fn=claim-coinbase"), "failed claim: new ETXs %d, lockup record %s -> %s", newEtx, o.lockPre, lockPost)
			}
		case 60:
			wpost := t.st.GetState(mustInternal(lockupAddr), wrappedKey(o.self)).Big()
			wdebit := new(big.Int).Sub(o.wrappedPre, wpost)
			value := new(big.Int).SetBytes(o.mem[20:52])
			if status == "1" {
				gl := binary.BigEndian.Uint64(o.mem[52:60])
				switch {
				case newEtx != 1:
					t.violate("C05", "op-atomicity", out("success-without-etx", "fn=unwrap-qi"), "status 1 with %d new ETXs", newEtx)
				case wdebit.Cmp(value) != 0:
					t.violate("C05", "op-atomicity", out("debit-mismatch", "fn=unwrap-qi"), "wrapped balance debited %v, value %v", wdebit, value)
				default:
					checkEtx("fn=unwrap-qi", types.UnwrapQiType, common.BytesToAddress(o.mem[:20], loc), value, &gl)
				}
			} else if newEtx != 0 || wdebit.Sign() != 0 {
				t.violate("C05", "op-atomicity", out("effects-without-success", "fn=unwrap-qi"), "failed unwrap: new ETXs %d, wrapped balance debit %v", newEtx, wdebit)
			}
		default:
			if newEtx != 0 {
				t.violate("C05", "op-atomicity", out("unexpected-etx", "fn=other"), "%d ETXs from a lockup call with %d input bytes", newEtx, len(o.mem))
			}
		}
		if debit.Sign() != 0 {
			t.violate("C05", "op-atomicity", out("quai-debit", "fn=any"), "lockup precompile call changed the caller's Quai balance by %v", debit)
		}
	}
}

// outCond evaluates, independently of the EVM, which condition an ETX / CONVERT operation meets, and
// the exact (unbounded) value + prepaid fee it states.
func (t *tracer) outCond(o *opRec) (cond string, total, value, gasLimit *big.Int) {
	value, gasLimit = o.args[2].ToBig(), o.args[3].ToBig()
	var fee *big.Int
	overflow := false
	of := func(x *big.Int) { overflow = overflow || x.Cmp(two256) >= 0 }
	if o.kind == "ETX" {
		fee = new(big.Int).Add(o.args[4].ToBig(), o.args[5].ToBig())
		of(fee)
	} else {
		fee = new(big.Int).Set(t.rg.gasPrice)
	}
	fee.Mul(fee, gasLimit)
	of(fee)
	total = new(big.Int).Add(value, fee)
	of(total)
	wrapped := new(big.Int).Mod(total, two256)
	inScope := common.IsInChainScope(o.target.Bytes(), loc)
	gasTooBig, gasTooSmall := !gasLimit.IsUint64(), new(big.Int).And(gasLimit, new(big.Int).SetUint64(math.MaxUint64)).Uint64() < params.TxGas
	pre := func() string { // checks that precede the balance check after the fork, follow it before
		switch {
		case gasTooBig:
			return "gaslimit-over-uint64"
		case gasTooSmall:
			return "gaslimit-below-min"
		}
		return ""
	}
	if o.kind == "ETX" {
		if inScope {
			return "dest-in-scope", total, value, gasLimit
		}
	} else {
		p := t.rg.ptn
		switch {
		case !inScope:
			return "dest-out-of-scope", total, value, gasLimit
		case !o.target.IsInQiLedgerScope():
			return "dest-not-qi", total, value, gasLimit
		case value.Cmp(params.MinQuaiConversionAmount) < 0:
			return "below-min-conversion", total, value, gasLimit
		case p < params.ControllerKickInBlock:
			return "before-controller", total, value, gasLimit
		case p >= params.KawPowForkBlock && p < params.KawPowForkBlock+params.KQuaiChangeHoldInterval,
			p >= params.ShaEquivalentDifficultyForkBlock && p < params.ShaEquivalentDifficultyForkBlock+params.KQuaiChangeHoldInterval:
			return "hold-interval", total, value, gasLimit
		}
	}
	if t.rg.postSD() {
		if c := pre(); c != "" {
			return c, total, value, gasLimit
		}
		if overflow {
			return "overflow", total, value, gasLimit
		}
	}
	switch {
	case wrapped.Sign() == 0:
		return "zero-total", total, value, gasLimit
	case o.selfBal.Cmp(wrapped) < 0:
		return "insufficient-balance", total, value, gasLimit
	}
	if !t.rg.postSD() {
		if c := pre(); c != "" {
			return c, total, value, gasLimit
		}
	}
	if o.kind == "ETX" {
		var al types.AccessList
		if err := rlp.DecodeBytes(o.mem, &al); err != nil && len(o.mem) != 0 {
			return "malformed-access-list", total, value, gasLimit
		}
		if !t.rg.eligible(*o.target.Location()) {
			return "ineligible-destination", total, value, gasLimit
		}
	}
	if overflow {
		return "overflow-wrapped", total, value, gasLimit
	}
	return "ok", total, value, gasLimit
}

// inside names the notable kinds of effect the completed part of a failed frame had produced.
func inside(f *frame) string {
	if f == nil {
		return "none"
	}
	var in []string
	if f.creates > 0 {
		in = append(in, "create")
	}
	if len(f.etxs) > f.claims {
		in = append(in, "etx")
	}
	if f.claims > 0 {
		in = append(in, "lockup-claim")
	}
	if len(f.sds) > 0 {
		in = append(in, "selfdestruct")
	}
	if len(f.writes) > 0 {
		in = append(in, "sstore")
	}
	if len(in) == 0 {
		return "none"
	}
	return strings.Join(in, "+")
}
