package evmsim

import (
	"crypto/ecdsa"
	"encoding/binary"
	"fmt"
	"math/big"

	"github.com/dominant-strategies/go-quai/common"
	"github.com/dominant-strategies/go-quai/core/types"
	"github.com/dominant-strategies/go-quai/core/vm"
	"github.com/dominant-strategies/go-quai/crypto"
	"github.com/dominant-strategies/go-quai/params"
	"github.com/dominant-strategies/go-quai/rlp"
)

// ---------------------------------------------------------------- fixed alphabets

func addr(hex string) common.Address { return common.HexToAddress(hex, loc) }

func mustInternal(a common.Address) common.InternalAddress {
	i, err := a.InternalAndQuaiAddress()
	if err != nil {
		panic(fmt.Sprintf("address %x is not an in-scope Quai address: %v", a.Bytes(), err))
	}
	return i
}

var (
	big0    = new(big.Int)
	two256  = new(big.Int).Lsh(big.NewInt(1), 256)
	max256  = new(big.Int).Sub(two256, big.NewInt(1))
	two255  = new(big.Int).Lsh(big.NewInt(1), 255)
	two64   = new(big.Int).Lsh(big.NewInt(1), 64)
	e18     = big.NewInt(1e18)
	minConv = new(big.Int).Set(params.MinQuaiConversionAmount)

	payerKey  *ecdsa.PrivateKey
	payerAddr common.Address

	contractAddrs = []common.Address{
		addr("0x0001000000000000000000000000000000000c00"), addr("0x0001000000000000000000000000000000000c01"),
		addr("0x0001000000000000000000000000000000000c02"), addr("0x0001000000000000000000000000000000000c03"),
		addr("0x0001000000000000000000000000000000000c04"),
	}
	recvFunded  = addr("0x0002000000000000000000000000000000000e00") // existing account without code
	recvAbsent  = addr("0x0002000000000000000000000000000000000e01") // does not exist
	coinbase    = addr("0x0003000000000000000000000000000000000cb0")
	minerQuai   = addr("0x0004000000000000000000000000000000000a00") // lockup beneficiary, Quai ledger
	minerQi     = addr("0x0084000000000000000000000000000000000a01") // lockup beneficiary, Qi ledger
	localQi     = addr("0x0080000000000000000000000000000000000b00") // same zone, Qi ledger: conversion target
	localQi2    = addr("0x00ff000000000000000000000000000000000b01")
	extQuaiZ1   = addr("0x0100000000000000000000000000000000000d00") // zone 0-1, Quai
	extQuaiZ2   = addr("0x0201000000000000000000000000000000000d01") // zone 0-2, Quai
	extQuaiR1   = addr("0x1000000000000000000000000000000000000d02") // region 1, Quai
	extQi       = addr("0x0180000000000000000000000000000000000d03") // zone 0-1, Qi
	zeroAddr    = common.ZeroAddress(loc)
	lockupAddr  = addr("0x000000000000000000000000000000000000000A")
	identityPre = addr("0x0000000000000000000000000000000000000004")
	sha256Pre   = addr("0x0000000000000000000000000000000000000002")

	// plain value-transfer / self-destruct recipients (the payer is deliberately absent)
	recipients = []common.Address{}
	// opETX destinations
	etxDests = []common.Address{}
	// opConvert destinations
	convDests = []common.Address{}
	// destinations of plain CALLs leaving the chain scope (evm.CreateETX)
	extDests = []common.Address{}

	valueAlphabet []*big.Int // for transfers / endowments / call values
	etxValues     []*big.Int
	etxGasLimits  []*big.Int
	etxFees       []*big.Int
	aclBlobs      [][]byte
	aclBlobNames  = []string{"none", "empty-list", "one-tuple", "garbage", "truncated", "zeros"}
	memOffsets    = []uint64{0x40, 0x400, 0x2000, 0x20000}
)

func initWorldConstants() {
	// the payer is the only account with a key: find a key whose address lies in zone 0-0 / Quai ledger
	for i := 1; ; i++ {
		k, err := crypto.ToECDSA(crypto.Keccak256([]byte(fmt.Sprintf("evmsim-key-%d", i))))
		if err != nil {
			continue
		}
		a := crypto.PubkeyToAddress(k.PublicKey, loc)
		if _, err := a.InternalAndQuaiAddress(); err == nil {
			payerKey, payerAddr = k, a
			break
		}
	}
	recipients = []common.Address{recvFunded, recvAbsent, contractAddrs[0], contractAddrs[1], zeroAddr, coinbase, contractAddrs[2]}
	etxDests = []common.Address{extQuaiZ1, extQuaiZ2, extQuaiR1, extQi, extQuaiZ1, localQi, recvFunded, zeroAddr}
	convDests = []common.Address{localQi, localQi2, localQi, extQi, recvFunded, extQuaiZ1}
	extDests = []common.Address{extQuaiZ1, extQuaiR1, localQi, extQi, extQuaiZ2, localQi2}
	valueAlphabet = []*big.Int{big0, big0, big.NewInt(1), big.NewInt(1000), e18, new(big.Int).Mul(big.NewInt(30), e18), new(big.Int).Mul(big.NewInt(1e6), e18)}
	etxValues = []*big.Int{big0, big.NewInt(1), big.NewInt(1000), e18, new(big.Int).Sub(minConv, big.NewInt(1)), minConv, new(big.Int).Mul(big.NewInt(20), e18),
		new(big.Int).Mul(big.NewInt(1e6), e18), max256, two255, new(big.Int).Sub(two256, big.NewInt(42000)), nil /* SELFBALANCE */, big.NewInt(1000), e18}
	etxGasLimits = []*big.Int{big.NewInt(21000), big.NewInt(21000), big.NewInt(100000), big0, big.NewInt(20999), new(big.Int).Sub(two64, big.NewInt(1)), two64, new(big.Int).Lsh(big.NewInt(1), 200), big.NewInt(42000)}
	etxFees = []*big.Int{big0, big.NewInt(1), big.NewInt(1), big.NewInt(1e9), two255, max256, big.NewInt(2)}
	one, err := rlp.EncodeToBytes(types.AccessList{{Address: contractAddrs[0], StorageKeys: []common.Hash{common.BigToHash(big.NewInt(1))}}})
	if err != nil {
		panic(err)
	}
	var probe types.AccessList
	if err := rlp.DecodeBytes(one, &probe); err != nil || len(probe) != 1 {
		panic(fmt.Sprintf("access-list blob does not round-trip: %v", err))
	}
	aclBlobs = [][]byte{nil, {0xc0}, one, {0xff, 0xfe, 0xfd, 0x01, 0x02}, one[:len(one)-3], make([]byte, 7)}
	for i, b := range aclBlobs {
		var al types.AccessList
		err := rlp.DecodeBytes(b, &al)
		if (err != nil && len(b) != 0) != (i >= 3) {
			panic(fmt.Sprintf("access-list blob %s: unexpected decode result %v", aclBlobNames[i], err))
		}
	}
}

// ---------------------------------------------------------------- assembler

type fixup struct {
	at    int // position of the 2 placeholder bytes
	label int // >=0: label id ; <0: blob -(n+1), with lenNotOff
	isLen bool
}

type asm struct {
	b      []byte
	fix    []fixup
	labels map[int]int
	nlabel int
	blobs  [][]byte
}

func newAsm() *asm { return &asm{labels: map[int]int{}} }

func (a *asm) op(ops ...vm.OpCode) {
	for _, o := range ops {
		a.b = append(a.b, byte(o))
	}
}

func (a *asm) pushBytes(v []byte) {
	for len(v) > 1 && v[0] == 0 {
		v = v[1:]
	}
	if len(v) == 0 {
		v = []byte{0}
	}
	if len(v) > 32 {
		panic("push > 32 bytes")
	}
	a.b = append(a.b, byte(vm.PUSH1)+byte(len(v)-1))
	a.b = append(a.b, v...)
}
func (a *asm) push(v *big.Int)            { a.pushBytes(v.Bytes()) }
func (a *asm) pushU(u uint64)             { a.push(new(big.Int).SetUint64(u)) }
func (a *asm) pushAddr(ad common.Address) { a.b = append(append(a.b, byte(vm.PUSH20)), ad.Bytes()...) }
func (a *asm) newLabel() int              { a.nlabel++; return a.nlabel - 1 }
func (a *asm) pushLabel(l int)            { a.placeholder(fixup{label: l}) }
func (a *asm) label(l int)                { a.labels[l] = len(a.b); a.op(vm.JUMPDEST) }
func (a *asm) addBlob(b []byte) int       { a.blobs = append(a.blobs, b); return len(a.blobs) - 1 }
func (a *asm) pushBlobOff(i int)          { a.placeholder(fixup{label: -(i + 1)}) }
func (a *asm) pushBlobLen(i int)          { a.placeholder(fixup{label: -(i + 1), isLen: true}) }
func (a *asm) placeholder(f fixup) {
	a.b = append(a.b, byte(vm.PUSH2))
	f.at = len(a.b)
	a.b = append(a.b, 0, 0)
	a.fix = append(a.fix, f)
}
func (a *asm) mstore(off uint64, w []byte) { a.pushBytes(w); a.pushU(off); a.op(vm.MSTORE) }
func (a *asm) pop(n int) {
	for i := 0; i < n; i++ {
		a.op(vm.POP)
	}
}
func (a *asm) revert()              { a.pushU(0); a.pushU(0); a.op(vm.REVERT) }
func (a *asm) ret(off, size uint64) { a.pushU(size); a.pushU(off); a.op(vm.RETURN) }

// storeBytes writes data into memory at off, 32 bytes at a time.
func (a *asm) storeBytes(off uint64, data []byte) {
	for i := 0; i < len(data); i += 32 {
		var w [32]byte
		copy(w[:], data[i:])
		a.b = append(append(a.b, byte(vm.PUSH32)), w[:]...)
		a.pushU(off + uint64(i))
		a.op(vm.MSTORE)
	}
}

func (a *asm) finish() []byte {
	a.op(vm.STOP)
	offs := make([]int, len(a.blobs))
	for i, bl := range a.blobs {
		offs[i] = len(a.b)
		a.b = append(a.b, bl...)
	}
	for _, f := range a.fix {
		var v int
		switch {
		case f.label >= 0:
			pos, ok := a.labels[f.label]
			if !ok {
				panic("undefined label")
			}
			v = pos
		case f.isLen:
			v = len(a.blobs[-f.label-1])
		default:
			v = offs[-f.label-1]
		}
		if v > 0xffff {
			panic("code too large for PUSH2 fixups")
		}
		binary.BigEndian.PutUint16(a.b[f.at:], uint16(v))
	}
	return a.b
}

// ---------------------------------------------------------------- actions

// tapeOp is one entry of the decision tape; every field is a small index.
type tapeOp struct{ K, A, B, C, D, E int }

const canary = 0xCA11

var callGasNames = []string{"all", "half", "eighth", "60000", "2500", "zero", "all", "400000"}

func (a *asm) pushCallGas(mode int) {
	switch mode % len(callGasNames) {
	case 0, 6:
		a.pushBytes([]byte{0xff, 0xff, 0xff, 0xff, 0xff, 0xff, 0xff, 0xff})
	case 1:
		a.pushU(2)
		a.op(vm.GAS, vm.DIV)
	case 2:
		a.pushU(8)
		a.op(vm.GAS, vm.DIV)
	case 3:
		a.pushU(60000)
	case 4:
		a.pushU(2500)
	case 5:
		a.pushU(0)
	case 7:
		a.pushU(400000)
	}
}

// afterCall consumes the status word and the canary pushed before the operation.  If the operation
// failed to push its status word the second POP underflows and the frame dies (observable on chain);
// the tracer additionally checks the stack height directly.
func (a *asm) afterCall(require bool) {
	if require {
		ok := a.newLabel()
		a.pushLabel(ok)
		a.op(vm.JUMPI)
		a.revert()
		a.label(ok)
		a.op(vm.POP)
		return
	}
	a.pop(2)
}

func marker(ci, ai int) *big.Int { return big.NewInt(int64(0x100000 + ci*0x1000 + ai*0x10)) }

var runtimeVariants = [][]byte{
	{byte(vm.STOP)},
	{byte(vm.PUSH1), 0x2a, byte(vm.PUSH1), 0, byte(vm.SSTORE), byte(vm.STOP)},
	{0xEF, 0x00},
	nil, // filled at init: 600 bytes, its deposit costs 120000 gas
}

func init() {
	big := make([]byte, 600)
	for i := range big {
		big[i] = byte(vm.JUMPDEST)
	}
	runtimeVariants[3] = big
}

var lockupFnNames = []string{"claim-coinbase", "unwrap-qi", "claim-deposit", "claim-coinbase", "get-lockup", "get-latest", "bad-length", "unwrap-qi"}

// lockupInput renders the tightly packed input of the lockup precompile for the drawn arguments.
func lockupInput(o tapeOp, blockNumber uint64) (string, []byte) {
	fn := lockupFnNames[o.A%len(lockupFnNames)]
	gasLims := []uint64{21000, 0, 21000, 100000, 1 << 40}
	g := make([]byte, 8)
	binary.BigEndian.PutUint64(g, gasLims[o.E%len(gasLims)])
	switch fn {
	case "claim-coinbase": // miner(20) to(20) lockupByte(1) epoch(4) etxGasLimit(8)
		miner, to := minerQuai, []common.Address{extQuaiZ1, recvFunded, localQi}[o.C%3]
		if o.B%3 == 2 {
			miner, to = minerQi, []common.Address{localQi, extQi, recvFunded}[o.C%3]
		}
		in := append(append([]byte{}, miner.Bytes()...), to.Bytes()...)
		in = append(in, byte(o.B/3%2))
		ep := make([]byte, 4)
		binary.BigEndian.PutUint32(ep, []uint32{1, 1, 1, 2, 0, uint32(blockNumber/params.CoinbaseEpochBlocks) + 1}[o.D%6])
		return fn, append(append(in, ep...), g...)
	case "unwrap-qi": // beneficiaryQi(20) value(32) etxGasLimit(8)
		ben := []common.Address{localQi, localQi2, recvFunded, extQi}[o.B%4]
		val := []*big.Int{big.NewInt(1), big.NewInt(400), big.NewInt(1000), big.NewInt(1001), big0, max256}[o.C%6]
		in := append(append([]byte{}, ben.Bytes()...), common.BigToHash(val).Bytes()...)
		return fn, append(in, g...)
	case "claim-deposit": // quaiOwner(20)
		return fn, append([]byte{}, []common.Address{recvFunded, recvAbsent, extQuaiZ1}[o.B%3].Bytes()...)
	case "get-lockup":
		in := append(append([]byte{}, minerQuai.Bytes()...), byte(o.B%2))
		return fn, append(in, 0, 0, 0, 1)
	case "get-latest":
		return fn, append(append([]byte{}, minerQuai.Bytes()...), byte(o.B%2))
	}
	return fn, []byte{1, 2, 3, 4, 5, 6, 7}
}

// program is the compiled form of one case: runtime code per contract.
type program struct {
	n           int
	bodies      [][]tapeOp
	kinds       []string // action-kind table of the property under test
	blockNumber uint64
	code        [][]byte
	salts       map[string][32]byte
	desc        [][]string // human-readable actions per contract
}

func (p *program) compileAll() {
	p.code = make([][]byte, p.n)
	p.desc = make([][]string, p.n)
	for i := p.n - 1; i >= 0; i-- {
		p.code[i] = p.compile(i, false, 0)
	}
}

// memStress makes the ETX action use large memory windows (C15 runs only).
var memStress bool

// kindOf interprets the action-kind index.  The first action of every contract but the last is a call or a
// creation three times out of four, so that call trees get some depth.
func (p *program) kindOf(i, ai int, o tapeOp) string {
	if ai == 0 && i < p.n-1 && o.K%4 != 0 {
		return []string{"call", "call", "call", "create"}[o.K/4%4]
	}
	return p.kinds[o.K%len(p.kinds)]
}

// target picks a contract strictly after i (the call graph is a DAG, so every run terminates), or -1.
func (p *program) target(i, sel int) int {
	if i >= p.n-1 {
		return -1
	}
	return i + 1 + sel%(p.n-1-i)
}

// create2Salt grinds a salt that yields an in-scope Quai address for (creator, initcode).
func create2Salt(creator common.Address, init []byte) [32]byte {
	h := crypto.Keccak256(init)
	var salt [32]byte
	for i := uint64(0); ; i++ {
		binary.BigEndian.PutUint64(salt[24:], i)
		if _, err := crypto.CreateAddress2(creator, salt, h, loc).InternalAndQuaiAddress(); err == nil {
			return salt
		}
	}
}

func create2SaltQi(creator common.Address, init []byte) [32]byte {
	h := crypto.Keccak256(init)
	salt := [32]byte{0: 0x51}
	for i := uint64(0); ; i++ {
		binary.BigEndian.PutUint64(salt[24:], i)
		if a := crypto.CreateAddress2(creator, salt, h, loc); a.Bytes()[0] == loc.BytePrefix() && a.IsInQiLedgerScope() {
			return salt
		}
	}
}

// compile assembles contract i.  asInit: the body runs as init code and finally returns runtime variant rt.
func (p *program) compile(i int, asInit bool, rt int) []byte {
	a := newAsm()
	var desc []string
	note := func(format string, args ...any) { desc = append(desc, fmt.Sprintf(format, args...)) }
	terminated := false
	for ai, o := range p.bodies[i] {
		if terminated {
			break
		}
		kind := p.kindOf(i, ai, o)
		switch kind {
		case "sstore":
			v := marker(i, ai)
			if o.B%4 == 0 {
				v = big0
			}
			note("SSTORE slot%d=%x", o.A%4, v)
			a.push(v)
			a.pushU(uint64(o.A % 4))
			a.op(vm.SSTORE)
		case "sload":
			note("SLOAD slot%d", o.A%4)
			a.pushU(uint64(o.A % 4))
			a.op(vm.SLOAD, vm.POP)
		case "tstore":
			note("TSTORE slot%d", o.A%4)
			a.push(marker(i, ai))
			a.pushU(uint64(o.A % 4))
			a.op(vm.TSTORE)
		case "log":
			note("LOG1")
			a.push(marker(i, ai))
			a.pushU(32)
			a.pushU(0)
			a.op(vm.LOG1)
		case "mem":
			if memStress && o.B%2 == 1 {
				// C15: reach a page or more in one step, then extend the memory a few words at a time from wherever it ends
				base := []uint64{4096, 8192, 40000, 0}[o.C%4]
				steps := 1 + o.D%4
				note("MSTORE @%#x then %d x MSTORE @MSIZE+%d", base, steps, 32*(o.E%3))
				if base > 0 {
					a.pushU(1)
					a.pushU(base)
					a.op(vm.MSTORE)
				}
				for k := 0; k < steps; k++ {
					a.pushU(uint64(k + 1))
					a.op(vm.MSIZE)
					if o.E%3 > 0 {
						a.pushU(uint64(32 * (o.E % 3)))
						a.op(vm.ADD)
					}
					a.op(vm.MSTORE)
				}
				break
			}
			note("MSTORE @%#x", memOffsets[o.A%len(memOffsets)])
			a.pushU(1)
			a.pushU(memOffsets[o.A%len(memOffsets)])
			a.op(vm.MSTORE)
		case "transfer":
			to, v := recipients[o.A%len(recipients)], valueAlphabet[o.B%len(valueAlphabet)]
			gm := (o.C % 2) * 5 // all, or zero (stipend only)
			if o.A%len(recipients) != 0 && o.A%len(recipients) != 1 {
				gm = 5 // a recipient with code only ever gets the stipend: no call cycles
			}
			note("CALL(transfer) to=%x value=%v gas=%s", to.Bytes()[18:], v, callGasNames[gm])
			a.pushU(canary)
			a.pushU(0)
			a.pushU(0)
			a.pushU(0)
			a.pushU(0)
			a.push(v)
			a.pushAddr(to)
			a.pushCallGas(gm)
			a.op(vm.CALL)
			a.afterCall(false)
		case "selfdestruct":
			bens := []common.Address{recvFunded, recvAbsent, contractAddrs[i], contractAddrs[0], coinbase, extQuaiZ1, localQi, contractAddrs[(i+1)%len(contractAddrs)]}
			b := bens[o.A%len(bens)]
			if o.A%len(bens) == 2 {
				note("SELFDESTRUCT beneficiary=self")
				a.op(vm.ADDRESS, vm.SELFDESTRUCT)
			} else {
				note("SELFDESTRUCT beneficiary=%x", b.Bytes()[:2])
				a.pushAddr(b)
				a.op(vm.SELFDESTRUCT)
			}
			terminated = true
		case "etx":
			// D >= 11: every argument drawn independently from the full alphabets.  Otherwise the arguments are
			// well-formed and at most one of them is spoiled, so that each exit of the operation - the successful
			// one included - is reached often.
			dest := etxDests[o.A%len(etxDests)]
			val := etxValues[o.B%len(etxValues)]
			gl := etxGasLimits[o.C%len(etxGasLimits)]
			tip, feeCap := etxFees[o.D%len(etxFees)], etxFees[(o.D/len(etxFees)+o.E)%len(etxFees)]
			bi := o.E % len(aclBlobs)
			if o.D < 11 {
				dest = []common.Address{extQuaiZ1, extQuaiZ2, extQuaiR1, extQi}[o.A%4]
				val = []*big.Int{big.NewInt(1000), big0, big.NewInt(1), e18, new(big.Int).Mul(big.NewInt(20), e18)}[o.B%5]
				gl = []*big.Int{big.NewInt(21000), big.NewInt(100000), big.NewInt(42000)}[o.C%3]
				tip, feeCap = []*big.Int{big0, big.NewInt(1), big.NewInt(2)}[o.D%3], []*big.Int{big.NewInt(1), big.NewInt(1e9), big0}[o.D/3%3]
				bi = o.E % 3
				switch o.E / 3 % 11 {
				case 5:
					dest = []common.Address{localQi, recvFunded, zeroAddr}[o.A%3]
				case 6:
					gl = []*big.Int{big0, big.NewInt(20999), two64, new(big.Int).Lsh(big.NewInt(1), 200), new(big.Int).Sub(two64, big.NewInt(1))}[o.C%5]
				case 7:
					tip = []*big.Int{two255, max256}[o.C%2]
				case 8:
					bi = 3 + o.A%3
				case 9:
					val = []*big.Int{new(big.Int).Mul(big.NewInt(1e6), e18), nil, max256, new(big.Int).Sub(two256, big.NewInt(42000))}[o.B%4]
				case 10:
					val, tip, feeCap = big0, big0, big0
				}
			}
			note("ETX dest=%x value=%v gaslimit=%v tip=%v cap=%v acl=%s", dest.Bytes()[:2], val, gl, tip, feeCap, aclBlobNames[bi])
			a.storeBytes(0x200, aclBlobs[bi])
			a.pushU(canary)
			a.pushU(uint64(len(aclBlobs[bi])))
			a.pushU(0x200)
			inSize := uint64(o.D % 2 * 4)
			if memStress && o.E%3 == 0 {
				inSize = []uint64{1 << 14, 1 << 17, 1 << 19}[o.B%3] // C15: a large data window, i.e. a large memory expansion
			}
			a.pushU(inSize) // inSize
			a.pushU(0)      // inOffset
			a.push(feeCap)
			a.push(tip)
			a.push(gl)
			if val == nil {
				a.op(vm.SELFBALANCE)
			} else {
				a.push(val)
			}
			a.pushAddr(dest)
			a.firstArg(o)
			a.op(vm.ETX)
			a.afterCall(o.E%5 == 4)
		case "convert":
			dest := convDests[o.A%len(convDests)]
			val := etxValues[(o.B+4)%len(etxValues)]
			gl := etxGasLimits[o.C%len(etxGasLimits)]
			if o.D < 11 { // as for ETX: well-formed arguments, at most one spoiled
				dest = []common.Address{localQi, localQi2}[o.A%2]
				val = []*big.Int{minConv, new(big.Int).Mul(big.NewInt(20), e18), new(big.Int).Mul(big.NewInt(11), e18)}[o.B%3]
				gl = []*big.Int{big.NewInt(21000), big.NewInt(42000), big.NewInt(100000)}[o.C%3]
				switch o.E / 3 % 9 {
				case 4:
					dest = []common.Address{extQi, recvFunded, extQuaiZ1}[o.A%3]
				case 5:
					val = []*big.Int{new(big.Int).Sub(minConv, big.NewInt(1)), big0, e18}[o.B%3]
				case 6:
					gl = []*big.Int{big0, big.NewInt(20999), two64, new(big.Int).Lsh(big.NewInt(1), 200)}[o.C%4]
				case 7:
					val = []*big.Int{new(big.Int).Mul(big.NewInt(1e6), e18), nil, max256, new(big.Int).Sub(two256, big.NewInt(42000))}[o.B%4]
				case 8:
					gl = new(big.Int).Sub(two64, big.NewInt(1))
				}
			}
			note("CONVERT dest=%x value=%v gaslimit=%v", dest.Bytes()[:2], val, gl)
			a.pushU(canary)
			a.push(gl)
			if val == nil {
				a.op(vm.SELFBALANCE)
			} else {
				a.push(val)
			}
			a.pushAddr(dest)
			a.firstArg(o)
			a.op(vm.CONVERT)
			a.afterCall(o.E%5 == 4)
		case "extcall":
			dest := extDests[o.A%len(extDests)]
			val := []*big.Int{big.NewInt(1000), e18, minConv, big0, new(big.Int).Mul(big.NewInt(1e6), e18), new(big.Int).Sub(minConv, big.NewInt(1))}[o.B%6]
			note("CALL(external) dest=%x value=%v gas=%s", dest.Bytes()[:2], val, callGasNames[[]int{0, 3, 4, 7, 1}[o.C%5]])
			a.pushU(canary)
			a.pushU(0)
			a.pushU(0)
			a.pushU(uint64(o.D % 2 * 4))
			a.pushU(0)
			a.push(val)
			a.pushAddr(dest)
			a.pushCallGas([]int{0, 3, 4, 7, 1}[o.C%5])
			a.op(vm.CALL)
			a.afterCall(o.E%5 == 4)
		case "lockup":
			fn, in := lockupInput(o, p.blockNumber)
			note("CALL(lockup) fn=%s input=%x", fn, in)
			a.storeBytes(0x100, in)
			a.pushU(canary)
			a.pushU(0x80)
			a.pushU(0x300)
			a.pushU(uint64(len(in)))
			a.pushU(0x100)
			a.pushU(uint64(o.D / 5 % 2)) // value 0 or 1 wei (never transferred)
			a.pushAddr(lockupAddr)
			a.pushCallGas([]int{0, 0, 7, 3}[o.E/5%4])
			a.op(vm.CALL)
			a.afterCall(o.E%7 == 6)
		case "precompile":
			pre := []common.Address{identityPre, sha256Pre}[o.A%2]
			note("CALL(precompile %x) gas=%s", pre.Bytes()[19:], callGasNames[o.B%len(callGasNames)])
			a.pushU(canary)
			a.pushU(32)
			a.pushU(0x40)
			a.pushU(64)
			a.pushU(0)
			a.pushU(0)
			a.pushAddr(pre)
			a.pushCallGas(o.B)
			a.op(vm.CALL)
			a.afterCall(false)
		case "call":
			j := p.target(i, o.B)
			callee := recvAbsent
			if j >= 0 {
				callee = contractAddrs[j]
			}
			cop := []vm.OpCode{vm.CALL, vm.CALL, vm.CALLCODE, vm.DELEGATECALL, vm.STATICCALL, vm.CALL}[o.A%6]
			v := valueAlphabet[o.C%len(valueAlphabet)]
			note("%s target=%d value=%v gas=%s require=%v", cop, j, v, callGasNames[o.D%len(callGasNames)], o.E%4 == 3)
			a.pushU(canary)
			if memStress && o.E%2 == 0 { // C15: argument / return windows beyond the current memory, i.e. the call itself expands memory
				win := []uint64{1 << 12, 1 << 15, 1 << 17, 1 << 19}
				a.pushU(32)                   // retSize
				a.pushU(win[(o.A+o.C)%4])     // retOffset
				a.pushU(uint64(o.B%2) * 64)   // argsSize
				a.pushU(win[(o.B+o.D)%4] / 2) // argsOffset
			} else {
				a.pushU(0)
				a.pushU(0)
				a.pushU(0)
				a.pushU(0)
			}
			if cop == vm.CALL || cop == vm.CALLCODE {
				a.push(v)
			}
			a.pushAddr(callee)
			a.pushCallGas(o.D)
			a.op(cop)
			a.afterCall(o.E%4 == 3)
		case "create":
			j := p.target(i, o.B)
			var init []byte
			if j >= 0 {
				init = p.compile(j, true, o.D%len(runtimeVariants))
			} else {
				ia := newAsm()
				ia.storeBytes(0, runtimeVariants[o.D%len(runtimeVariants)])
				ia.ret(0, uint64(len(runtimeVariants[o.D%len(runtimeVariants)])))
				init = ia.finish()
			}
			bl := a.addBlob(init)
			v := valueAlphabet[o.C%len(valueAlphabet)]
			two := o.A%2 == 1
			note("CREATE%s init=body%d runtime=%d value=%v", map[bool]string{true: "2"}[two], j, o.D%len(runtimeVariants), v)
			// CODECOPY(destOffset, offset, size)
			a.pushBlobLen(bl)
			a.pushBlobOff(bl)
			a.pushU(0x400)
			a.op(vm.CODECOPY)
			a.pushU(canary)
			if two {
				salt := [32]byte{31: 1}
				if o.E%6 == 5 { // a salt ground for an in-zone Qi-ledger address: the creation must fail and leave nothing
					salt = create2SaltQi(contractAddrs[i], init)
				} else if o.E%3 != 2 { // otherwise an arbitrary salt: the address is almost surely outside the zone
					key := string(contractAddrs[i].Bytes()) + string(crypto.Keccak256(init))
					s, ok := p.salts[key]
					if !ok {
						s = create2Salt(contractAddrs[i], init)
						p.salts[key] = s
					}
					salt = s
				}
				a.pushBytes(salt[:])
			}
			a.pushBlobLen(bl)
			a.pushU(0x400)
			a.push(v)
			if two {
				a.op(vm.CREATE2)
			} else {
				a.op(vm.CREATE)
			}
			a.afterCall(false)
		case "revert":
			note("REVERT")
			a.revert()
			terminated = true
		case "invalid":
			note("INVALID")
			a.op(vm.OpCode(0xfe))
			terminated = true
		case "return":
			note("RETURN")
			if !asInit {
				a.ret(0, 32)
				terminated = true
			}
		default:
			panic("unknown action kind " + kind)
		}
	}
	if asInit && !terminated {
		rtc := runtimeVariants[rt]
		a.storeBytes(0, rtc)
		a.ret(0, uint64(len(rtc)))
	}
	if !asInit {
		p.desc[i] = desc
	}
	return a.finish()
}

// firstArg pushes the first ("gas") argument of ETX / CONVERT, which the operation ignores and whose stack slot it
// reuses for the status word: contracts conventionally pass GAS or a constant there, so both zero and non-zero are used.
func (a *asm) firstArg(o tapeOp) {
	switch (o.A + o.B + o.C) % 3 {
	case 0:
		a.pushU(0)
	case 1:
		a.op(vm.GAS)
	default:
		a.pushU(0xf4235)
	}
}
