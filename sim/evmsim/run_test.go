package evmsim

import (
	"bytes"
	"fmt"
	"math/big"
	"os"
	"sort"
	"strings"
	"testing"

	"github.com/dominant-strategies/go-quai/common"
	"github.com/dominant-strategies/go-quai/core"
	"github.com/dominant-strategies/go-quai/core/state"
	"github.com/dominant-strategies/go-quai/core/types"
	"github.com/dominant-strategies/go-quai/core/vm"
	"github.com/dominant-strategies/go-quai/ethdb"
	"github.com/dominant-strategies/go-quai/params"
	"pgregory.net/rapid"

	"verif/sim/simkit"
)

// ---------------------------------------------------------------- alphabets of the case generator

// action-kind tables: the same compiler, different emphasis per property
var kindsByProp = map[string][]string{
	"C12": {"sstore", "sstore", "sstore", "sload", "tstore", "tstore", "log", "log", "mem", "transfer", "transfer", "selfdestruct", "selfdestruct", "etx", "convert", "extcall", "lockup", "lockup", "lockup", "precompile",
		"call", "call", "call", "call", "call", "call", "call", "call", "call", "create", "create", "create", "revert", "revert", "invalid", "return"},
	"C05": {"sstore", "log", "transfer", "selfdestruct", "etx", "etx", "etx", "etx", "etx", "convert", "convert", "convert", "extcall", "extcall", "extcall", "lockup", "lockup", "lockup",
		"call", "call", "call", "call", "call", "call", "create", "create", "revert", "revert", "invalid", "return", "mem"},
	"C02": {"sstore", "sstore", "transfer", "transfer", "transfer", "transfer", "selfdestruct", "selfdestruct", "selfdestruct", "etx", "etx", "convert", "extcall", "extcall", "lockup", "precompile",
		"call", "call", "call", "call", "call", "call", "call", "create", "create", "create", "revert", "invalid", "return", "mem", "tstore"},
}

func init() {
	kindsByProp["C16"] = []string{"create", "create", "create", "create", "create", "create", "transfer", "transfer", "extcall", "extcall", "selfdestruct", "selfdestruct", "etx", "convert", "sstore", "log",
		"call", "call", "call", "call", "call", "revert", "invalid", "return"}
	// C15 (memory accounting): memory-touching actions and every operation with memory operands, heavily weighted
	kindsByProp["C15"] = []string{"mem", "mem", "mem", "mem", "log", "log", "sstore", "transfer", "etx", "etx", "etx", "convert", "convert", "extcall", "extcall", "lockup", "lockup", "precompile", "precompile",
		"call", "call", "call", "call", "call", "call", "create", "create", "create", "revert", "revert", "return", "return", "invalid", "selfdestruct"}
}

var (
	ptnAlphabet = []uint64{100, params.ControllerKickInBlock - 1, params.ControllerKickInBlock, params.KawPowForkBlock - 1, params.KawPowForkBlock,
		params.KawPowForkBlock + params.KQuaiChangeHoldInterval - 1, params.KawPowForkBlock + params.KQuaiChangeHoldInterval,
		params.ShaEquivalentDifficultyForkBlock - 1, params.ShaEquivalentDifficultyForkBlock, params.ShaEquivalentDifficultyForkBlock + params.KQuaiChangeHoldInterval - 1,
		params.ShaEquivalentDifficultyForkBlock + params.KQuaiChangeHoldInterval, params.SelfDestructRefundForkBlock - 1, params.SelfDestructRefundForkBlock, params.SelfDestructRefundForkBlock + 100000}
	blockAlphabet   = []uint64{10, 60000, params.MaxGrindIncreaseForkBlock.Uint64() - 1, params.MaxGrindIncreaseForkBlock.Uint64(), params.MaxCodeSizeForkHeight - 1, params.MaxCodeSizeForkHeight, 4000000}
	sizeAlphabet    = []*big.Int{big.NewInt(0), big.NewInt(1 << 20), new(big.Int).Lsh(big.NewInt(1), 40)}
	baseFeeAlphabet = []*big.Int{big.NewInt(1), big.NewInt(7), big.NewInt(1e9)}
	contractBals    = []*big.Int{new(big.Int).Mul(big.NewInt(50), e18), new(big.Int).Mul(big.NewInt(1000), e18), new(big.Int).Mul(big.NewInt(12), e18), big0, big.NewInt(1), new(big.Int).Mul(big.NewInt(300), e18)}
	txKinds         = []string{"call", "call", "call", "call", "create", "create", "etx-in", "etx-in", "ext", "lockup", "suicide", "transfer"}
	txValues        = []*big.Int{big0, big0, big.NewInt(1), e18, new(big.Int).Mul(big.NewInt(20), e18)}
)

const (
	blockGasLimit = 30_000_000
	ampleGas      = 8_000_000
	payerNonce    = 5
)

// noInject (EVMSIM_NO_INJECT=1) leaves out the passes in which the harness itself empties a frame's gas, so that a
// failure can be re-found with faults a real transaction could produce on its own (gas limits, REVERT, INVALID).
var noInject = os.Getenv("EVMSIM_NO_INJECT") != ""

var payerBalance = new(big.Int).Mul(big.NewInt(1e9), e18)

var opGen = rapid.Custom(func(t *rapid.T) tapeOp {
	return tapeOp{
		K: rapid.IntRange(0, 63).Draw(t, "k"),
		A: rapid.IntRange(0, 15).Draw(t, "a"),
		B: rapid.IntRange(0, 15).Draw(t, "b"),
		C: rapid.IntRange(0, 15).Draw(t, "c"),
		D: rapid.IntRange(0, 15).Draw(t, "d"),
		E: rapid.IntRange(0, 34).Draw(t, "e"),
	}
})

type caseSpec struct {
	prop     string
	backend  int
	rg       regime
	bodies   [][]tapeOp
	bal      []int
	slotMask []int
	zeroBal  int
	txKind   string
	txVal    int
	txArg    tapeOp
	seedMask int
	enforce  bool
	omit     int
	sel      []int // cut / injection selectors
}

func drawCase(t *rapid.T, prop string) *caseSpec {
	c := &caseSpec{prop: prop}
	c.bodies = rapid.SliceOfN(rapid.SliceOfN(opGen, 1, 7), 1, 5).Draw(t, "contracts")
	recent := rapid.IntRange(len(ptnAlphabet)-3, len(ptnAlphabet)-1)
	c.rg.ptn = ptnAlphabet[rapid.OneOf(recent, rapid.IntRange(0, len(ptnAlphabet)-1)).Draw(t, "ptn")]
	c.rg.blockNumber = blockAlphabet[rapid.IntRange(0, len(blockAlphabet)-1).Draw(t, "block")]
	c.rg.quaiStateSize = sizeAlphabet[rapid.IntRange(0, len(sizeAlphabet)-1).Draw(t, "statesize")]
	c.rg.baseFee = baseFeeAlphabet[rapid.IntRange(0, len(baseFeeAlphabet)-1).Draw(t, "basefee")]
	c.rg.gasPrice = new(big.Int).Mul(c.rg.baseFee, big.NewInt(int64(rapid.IntRange(1, 2).Draw(t, "pricemul"))))
	c.rg.eligMask = rapid.OneOf(rapid.Just(63), rapid.IntRange(0, 63)).Draw(t, "eligible")
	for range c.bodies {
		c.bal = append(c.bal, rapid.IntRange(0, len(contractBals)-1).Draw(t, "bal"))
		c.slotMask = append(c.slotMask, rapid.IntRange(0, 15).Draw(t, "slots"))
	}
	c.zeroBal = rapid.IntRange(0, 1).Draw(t, "zerobal")
	c.txKind = txKinds[rapid.IntRange(0, len(txKinds)-1).Draw(t, "txkind")]
	c.txVal = rapid.IntRange(0, len(txValues)-1).Draw(t, "txvalue")
	c.txArg = opGen.Draw(t, "txarg")
	c.seedMask = rapid.IntRange(0, 255).Draw(t, "lockups")
	c.backend = rapid.IntRange(0, 2).Draw(t, "backend")
	c.enforce = rapid.Bool().Draw(t, "enforce-acl")
	c.omit = rapid.IntRange(0, 11).Draw(t, "omit-acl")
	c.sel = rapid.SliceOfN(rapid.IntRange(0, 9999), 0, 12).Draw(t, "faultpoints")
	return c
}

// ---------------------------------------------------------------- one case

type caseCtx struct {
	*caseSpec
	t      *rapid.T
	tr     *simkit.Trace
	w      *world
	prog   *program
	pre    *state.StateDB // read-only view of the pre-state
	acl    types.AccessList
	parent *types.WorkObject
	header *types.WorkObject
	chain  *stubChain
	signer types.Signer
	passes int
	cur    string // description of the pass being executed
}

type pass struct {
	gasLimit uint64
	inject   int
	tx       *types.Transaction
	st       *state.StateDB
	batch    ethdb.Batch
	tc       *tracer
	receipt  *types.Receipt
	err      error
}

func (c *caseCtx) fail(prop, class, witness, detail string) {
	if prop != c.prop {
		return
	}
	if simkit.Violation(c.t, c.tr, prop, class, witness, detail+"\n"+c.describe()) {
		panic(simkit.KnownReached{})
	}
}

func (c *caseCtx) describe() string {
	var sb strings.Builder
	fmt.Fprintf(&sb, "case: prime-terminus=%d block=%d stateSize=%v baseFee=%v gasPrice=%v eligible=%06b backend=%s enforce-acl=%v tx=%s txvalue=%v lockups=%d\n",
		c.rg.ptn, c.rg.blockNumber, c.rg.quaiStateSize, c.rg.baseFee, c.rg.gasPrice, c.rg.eligMask, backendNames[c.backend], c.enforce, c.txKind, txValues[c.txVal], len(c.w.seeds))
	for i, d := range c.prog.desc {
		fmt.Fprintf(&sb, "  contract %d (%x, balance %v): %s\n", i, contractAddrs[i].Bytes()[18:], contractBals[c.bal[i]], strings.Join(d, " ; "))
	}
	fmt.Fprintf(&sb, "  pass: %s", c.cur)
	return sb.String()
}

func (c *caseCtx) build() {
	c.prog = &program{n: len(c.bodies), bodies: c.bodies, kinds: kindsByProp[c.prop], blockNumber: c.rg.blockNumber, salts: map[string][32]byte{}}
	c.prog.compileAll()
	usesLockup := c.txKind == "lockup"
	for i, b := range c.bodies {
		for ai, o := range b {
			if c.prog.kindOf(i, ai, o) == "lockup" {
				usesLockup = true
			}
		}
	}
	backend := c.backend
	if !usesLockup { // the batch backend only matters to the lockup ledger: do not pay for opening a disk store otherwise
		backend = 0
	}
	c.backend = backend
	c.w = openWorld(backend)
	w := c.w
	// ---- lockup ledger seeds: one record per contract (locked or claimable), one for the payer, one Qi-ledger record
	for i := range c.bodies {
		s := lockSeed{owner: contractAddrs[i], miner: minerQuai, lockupByte: byte(i % 2), epoch: 1, balance: big.NewInt(int64(7000 + i)), unlock: 5, elements: 3, inBatch: c.seedMask>>uint(5+i%2)&1 == 1}
		if c.seedMask>>uint(i)&1 == 1 {
			s.unlock = uint32(c.rg.blockNumber) + 10 // still locked
		}
		if i == 2 {
			s.delegate = recvFunded
		}
		w.seeds = append(w.seeds, s)
	}
	w.seeds = append(w.seeds,
		lockSeed{owner: payerAddr, miner: minerQuai, lockupByte: 0, epoch: 1, balance: big.NewInt(7100), unlock: 5, elements: 1, inBatch: c.seedMask>>7&1 == 1},
		lockSeed{owner: contractAddrs[0], miner: minerQi, lockupByte: 0, epoch: 1, balance: big.NewInt(7200), unlock: 5, elements: 2})
	// ---- accounts
	accts := []acctSpec{{addr: payerAddr, balance: payerBalance, nonce: payerNonce}, {addr: recvFunded, balance: big.NewInt(7)}}
	for i := range c.bodies {
		a := acctSpec{addr: contractAddrs[i], balance: contractBals[c.bal[i]], nonce: 1, code: c.prog.code[i], slots: map[common.Hash]common.Hash{}}
		for s := 0; s < 4; s++ {
			if c.slotMask[i]>>uint(s)&1 == 1 {
				a.slots[slotKey(s)] = common.BigToHash(big.NewInt(int64(0xAA00 + i*16 + s)))
			}
		}
		accts = append(accts, a)
	}
	lock := acctSpec{addr: lockupAddr, nonce: 1, slots: map[common.Hash]common.Hash{}}
	for i, o := range []common.Address{contractAddrs[0], contractAddrs[1], payerAddr} {
		if c.seedMask>>uint(6)&1 == 1 || i == 0 {
			lock.slots[wrappedKey(o)] = common.BigToHash(big.NewInt(1000))
		}
		lock.slots[depositKey(o, recvFunded)] = common.BigToHash(big.NewInt(int64(300 + i)))
		w.watch[lockupAddr.Bytes20()] = append(w.watch[lockupAddr.Bytes20()], wrappedKey(o), depositKey(o, recvFunded))
	}
	accts = append(accts, lock)
	if c.zeroBal == 1 {
		accts = append(accts, acctSpec{addr: zeroAddr, balance: big.NewInt(3)})
	}
	for _, a := range append(append([]common.Address{}, recipients...), contractAddrs...) {
		w.know(a)
	}
	w.know(zeroAddr)
	w.commitPre(accts, c.rg.quaiStateSize)
	c.pre = w.newState(c.rg.quaiStateSize)

	// ---- block context
	c.parent = types.EmptyWorkObject(common.ZONE_CTX)
	c.parent.Header().SetQuaiStateSize(new(big.Int).Set(c.rg.quaiStateSize))
	c.header = types.EmptyWorkObject(common.ZONE_CTX)
	c.header.WorkObjectHeader().SetNumber(new(big.Int).SetUint64(c.rg.blockNumber))
	c.header.WorkObjectHeader().SetPrimeTerminusNumber(new(big.Int).SetUint64(c.rg.ptn))
	c.header.WorkObjectHeader().SetParentHash(c.parent.Hash())
	c.header.WorkObjectHeader().SetLocation(loc)
	c.header.WorkObjectHeader().SetTime(1_700_000_000)
	c.header.Header().SetBaseFee(new(big.Int).Set(c.rg.baseFee))
	c.header.Header().SetGasLimit(blockGasLimit)
	rg := c.rg
	c.chain = &stubChain{parent: c.parent, eligible: rg.eligible}
	c.signer = types.MakeSigner(w.cfg, c.header.Number(common.ZONE_CTX))
}

// txData returns (to, value, data) of the case's transaction.
func (c *caseCtx) txData() (*common.Address, *big.Int, []byte) {
	v := txValues[c.txVal]
	switch c.txKind {
	case "call":
		return &contractAddrs[0], v, nil
	case "create":
		return nil, v, c.prog.compile(0, true, c.txArg.D%len(runtimeVariants))
	case "ext":
		to := extDests[c.txArg.A%len(extDests)]
		return &to, []*big.Int{big.NewInt(1000), minConv, e18, big0}[c.txArg.B%4], nil
	case "lockup":
		_, in := lockupInput(c.txArg, c.rg.blockNumber)
		return &lockupAddr, big0, in
	case "suicide":
		ben := []common.Address{recvFunded, recvAbsent, payerAddr, contractAddrs[0]}[c.txArg.A%4]
		pa := payerAddr
		return &pa, big0, append([]byte("Suicide"), ben.Bytes()...)
	case "transfer":
		to := recipients[c.txArg.A%len(recipients)]
		return &to, v, nil
	}
	panic("txData: " + c.txKind)
}

func (c *caseCtx) makeTx(gasLimit uint64) *types.Transaction {
	if c.txKind == "etx-in" {
		to := contractAddrs[0]
		return types.NewTx(&types.ExternalTx{OriginatingTxHash: common.BytesToHash([]byte("evmsim-origin")), ETXIndex: 3, Gas: gasLimit, To: &to,
			Value: txValues[c.txVal], AccessList: c.acl, Sender: extQuaiZ1, EtxType: types.DefaultType})
	}
	to, v, data := c.txData()
	tx, err := types.SignNewTx(payerKey, c.signer, &types.QuaiTx{ChainID: c.w.cfg.ChainID, Nonce: payerNonce, GasPrice: new(big.Int).Set(c.rg.gasPrice), Gas: gasLimit, To: to,
		Value: new(big.Int).Set(v), Data: data, AccessList: c.acl})
	if err != nil {
		panic(err)
	}
	return tx
}

func (c *caseCtx) intrinsic() uint64 {
	if c.txKind == "etx-in" {
		g, _ := core.IntrinsicGas(nil, c.acl, false)
		return g
	}
	to, _, data := c.txData()
	g, err := core.IntrinsicGas(data, c.acl, to == nil)
	if err != nil {
		panic(err)
	}
	return g
}

// exec runs the case's transaction once through core.ApplyTransaction on a fresh copy of the pre-state.
func (c *caseCtx) exec(gasLimit uint64, inject int, enforce, record bool, what string) *pass {
	c.passes++
	c.cur = fmt.Sprintf("%s gasLimit=%d inject-at-step=%d", what, gasLimit, inject)
	p := &pass{gasLimit: gasLimit, inject: inject}
	p.st = c.w.newState(c.rg.quaiStateSize)
	p.batch = c.w.newBatch()
	p.tx = c.makeTx(gasLimit)
	rg := c.rg
	if c.txKind == "etx-in" {
		rg.gasPrice = big0 // an inbound ETX runs at gas price zero
	}
	p.tc = newTracer(c.w, &rg, p.st, p.batch, p.tx.Hash())
	p.tc.prop, p.tc.enforce, p.tc.inject, p.tc.tr, p.tc.record = c.prop, enforce, inject, c.tr, record
	gp := new(types.GasPool).AddGas(blockGasLimit)
	var usedGas, usedState uint64
	rl, pl := uint64(1)<<62, uint64(1)<<62
	cb := coinbase
	p.st.Prepare(p.tx.Hash(), 0)
	func() {
		defer func() {
			if r := recover(); r != nil {
				if _, ok := r.(simkit.KnownReached); ok {
					panic(r)
				}
				if s := fmt.Sprint(r); !strings.HasPrefix(s, "evmsim:") && !strings.Contains(s, "VCLASS") {
					c.fail(c.prop, "panic", "where=apply-transaction", fmt.Sprintf("core.ApplyTransaction panicked: %v", r))
				}
				panic(r)
			}
		}()
		p.receipt, _, p.err = core.ApplyTransaction(c.w.cfg, c.parent, common.PRIME_CTX, c.chain, &cb, gp, p.st, c.header, p.tx, &usedGas, &usedState,
			vm.Config{Debug: true, Tracer: p.tc}, &rl, &pl, p.batch, logger)
	}()
	if v := p.tc.viol; v != nil {
		c.fail(v.prop, v.class, v.witness, v.detail)
	}
	return p
}

func txLabel(c *caseCtx, p *pass) string {
	cause := "untraced"
	if p.tc.started {
		cause = classify(p.tc.topErr)
		if cause == "" {
			cause = "none"
		}
	}
	in := inside(p.tc.top)
	if p.tc.claimsTotal > 0 && !strings.Contains(in, "lockup-claim") {
		// the claim sits in a nested frame that failed itself, so it never merged into the top frame's effects
		in += "+lockup-claim(nested)"
	}
	return fmt.Sprintf("tx=%s cause=%s inside=%s", c.txKind, cause, in)
}

// plainDigest is the account part of the world digest (no EVM attached).
func (c *caseCtx) accountDiff(want, got *state.StateDB, skip map[common.AddressBytes]bool) []string {
	a, b := c.w.digest(want, nil, c.w.newBatch(), common.Hash{}), c.w.digest(got, nil, c.w.newBatch(), common.Hash{})
	var out []string
	for _, l := range diff(a, b) {
		if strings.HasPrefix(l, "transient") || strings.HasPrefix(l, "access-list") || strings.HasPrefix(l, "logs") || strings.HasPrefix(l, "refund") || strings.HasPrefix(l, "lockup-record") {
			continue
		}
		skipIt := false
		for ab := range skip {
			if strings.Contains(l, fmt.Sprintf("[%x", ab[:])) {
				skipIt = true
			}
		}
		if !skipIt {
			out = append(out, l)
		}
	}
	return out
}

// check runs the transaction-level oracles on a completed pass.
func (c *caseCtx) check(p *pass) {
	if p.err != nil { // the transaction is not includable (consensus error): no verdict, the block would be dropped
		simkit.Global.Inc("probe.tx_rejected")
		return
	}
	w, tc := c.w, p.tc
	failed := p.receipt.Status == types.ReceiptStatusFailed
	label := txLabel(c, p)
	payer := payerAddr
	if c.txKind == "etx-in" {
		payer = zeroAddr
	}
	ip := mustInternal(payer)
	gasUsed := new(big.Int).SetUint64(p.receipt.GasUsed)
	price := c.rg.gasPrice
	if c.txKind == "etx-in" {
		price = big0
	}
	if p.receipt.GasUsed > p.gasLimit {
		c.fail("C02", "gas-charge-bounds", label+" gas-used-above-limit", fmt.Sprintf("gas used %d > gas limit %d", p.receipt.GasUsed, p.gasLimit))
	}

	// C16: whatever the transaction did, this zone's account state holds no account outside the zone or in the Qi ledger
	for _, a := range append(append([]common.Address{}, tc.outOfScope...), extQi, extQuaiZ1, localQi, localQi2) {
		if a.Bytes()[0] == loc.BytePrefix() && !a.IsInQiLedgerScope() {
			continue
		}
		simkit.Global.Inc("out_of_scope_addresses_probed")
		if p.st.Exist(common.InternalAddress(a.Bytes20())) {
			c.fail("C16", "state-scope", fmt.Sprintf("out-of-scope-account-exists qi=%v foreign=%v", a.IsInQiLedgerScope(), a.Bytes()[0] != loc.BytePrefix()), fmt.Sprintf("after the transaction the zone's state contains an account for %x", a.Bytes()))
		}
	}
	// balances through the getters, before the trie is rebuilt
	for _, a := range w.known {
		if b := p.st.GetBalance(mustInternal(a)); b.Sign() < 0 {
			c.fail("C02", "negative-balance", label, fmt.Sprintf("balance of %x is %v after the transaction", a.Bytes(), b))
		}
	}
	// lockup ledger as the block's batch now shows it
	lockAfter := make([]string, len(w.seeds))
	fresh := w.newBatch()
	lockBefore := make([]string, len(w.seeds))
	for i, s := range w.seeds {
		lockAfter[i], lockBefore[i] = w.readLock(p.batch, s), w.readLock(fresh, s)
	}

	var rootAfter common.Hash
	func() {
		defer func() {
			if r := recover(); r != nil {
				// which account field went negative (balance, or the storage-size counter)
				what, neg := "", ""
				for _, a := range w.known {
					if b := p.st.GetBalance(mustInternal(a)); b.Sign() < 0 {
						what, neg = "negative-balance", neg+fmt.Sprintf(" balance[%x]=%v", a.Bytes()[18:], b)
					}
					if sz := p.st.GetSize(mustInternal(a)); sz != nil && sz.Sign() < 0 {
						if what == "" {
							what = "negative-storage-size"
						}
						neg += fmt.Sprintf(" size[%x]=%v", a.Bytes()[18:], sz)
					}
				}
				sd := ""
				if tc.counts["SELFDESTRUCT"] > 0 {
					sd = " selfdestruct"
				}
				if what == "negative-balance" {
					c.fail("C02", "negative-balance", label+" where=commit", fmt.Sprintf("committing the post-state panicked: %v;%s", r, neg))
				}
				c.fail(c.prop, "panic", "where=commit "+what+sd, fmt.Sprintf("StateDB.Commit panicked: %v;%s", r, neg))
				panic(r)
			}
		}()
		var err error
		if rootAfter, err = p.st.Commit(true); err != nil {
			panic(fmt.Sprintf("evmsim: commit: %v", err))
		}
	}()
	sumAfter := w.sumBalances(p.st, rootAfter)

	// ---------------- C12: a failed transaction leaves no trace apart from the payer's gas and nonce
	if failed {
		exp := w.newState(c.rg.quaiStateSize)
		// the sender's nonce is consumed by the transaction itself, not by the failed frame (a creation whose
		// address grinding fails does not even get that far): both are "entry" as far as this property goes
		if n, n0 := p.st.GetNonce(ip), c.pre.GetNonce(ip); n == n0 || n == n0+1 {
			exp.SetNonce(ip, n)
			if n == n0 && c.txKind != "etx-in" {
				simkit.Global.Inc("probe.failed_tx_nonce_not_consumed")
			}
		}
		exp.SetBalance(ip, p.st.GetBalance(ip))
		rootExp := exp.IntermediateRoot(true)
		if rootExp != rootAfter {
			d := c.accountDiff(exp, p.st, nil)
			kinds := "unknown"
			if len(d) > 0 {
				kinds = diffKinds(d)
			}
			c.fail("C12", "failed-tx-root", label+" field="+kinds, fmt.Sprintf("state root after the failed transaction %x, pre-state with only the payer charged %x:\n  %s", rootAfter, rootExp, strings.Join(d, "\n  ")))
		}
		for i := range w.seeds {
			if lockAfter[i] != lockBefore[i] {
				c.fail("C12", "failed-tx-root", label+" field=lockup-record", fmt.Sprintf("lockup record %d (owner %x) was %s before the failed transaction and is %s after it (batch view, after UndoCoinbasesDeleted)",
					i, w.seeds[i].owner.Bytes()[18:], lockBefore[i], lockAfter[i]))
			}
		}
		if n := len(p.receipt.Logs); n != 0 {
			c.fail("C12", "failed-tx-root", label+" field=logs", fmt.Sprintf("%d logs on the receipt of a failed transaction", n))
		}
	}
	// what the completed frames wrote is there, what the failed ones wrote is not
	if tc.started && !failed && tc.survivor != nil && !tc.desync {
		dead := map[common.AddressBytes]bool{}
		for _, sd := range tc.survivor.sds {
			dead[sd.self.Bytes20()] = true
		}
		exp := map[string]common.Hash{}
		var order []string
		seen := map[common.AddressBytes]map[common.Hash]bool{}
		for _, wr := range tc.survivor.writes {
			k := string(wr.addr.Bytes()) + string(wr.slot[:])
			if _, ok := exp[k]; !ok {
				order = append(order, k)
			}
			exp[k] = wr.val
			if seen[wr.addr.Bytes20()] == nil {
				seen[wr.addr.Bytes20()] = map[common.Hash]bool{}
			}
			seen[wr.addr.Bytes20()][wr.slot] = true
		}
		for _, k := range order {
			a, slot := common.BytesToAddress([]byte(k[:20]), loc), common.BytesToHash([]byte(k[20:]))
			want := exp[k]
			if dead[a.Bytes20()] {
				want = common.Hash{}
			}
			if got := p.st.GetState(mustInternal(a), slot); got != want {
				c.fail("C12", "final-storage-model", label+" what=surviving-write", fmt.Sprintf("slot %x of %x is %x, the last write of a completed frame was %x", slot[28:], a.Bytes()[18:], got, want))
			}
		}
		// slots touched only by frames that failed keep their pre-state value
		abs := make([]common.AddressBytes, 0, len(tc.slotsSeen))
		for ab := range tc.slotsSeen {
			abs = append(abs, ab)
		}
		sort.Slice(abs, func(i, j int) bool { return bytes.Compare(abs[i][:], abs[j][:]) < 0 })
		for _, ab := range abs {
			a, slots := common.Bytes20ToAddress(ab, loc), tc.slotsSeen[ab]
			keys := make([]common.Hash, 0, len(slots))
			for s := range slots {
				keys = append(keys, s)
			}
			sort.Slice(keys, func(i, j int) bool { return bytes.Compare(keys[i][:], keys[j][:]) < 0 })
			for _, s := range keys {
				if seen[ab][s] || dead[ab] {
					continue
				}
				if got, want := p.st.GetState(mustInternal(a), s), c.pre.GetState(mustInternal(a), s); got != want {
					c.fail("C12", "final-storage-model", label+" what=reverted-write", fmt.Sprintf("slot %x of %x is %x, pre-state %x, and no completed frame wrote it", s[28:], a.Bytes()[18:], got, want))
				}
			}
		}
		if len(p.receipt.Logs) != tc.survivor.logs {
			c.fail("C12", "final-storage-model", label+" what=logs", fmt.Sprintf("%d logs on the receipt, completed frames emitted %d", len(p.receipt.Logs), tc.survivor.logs))
		}
	}

	// ---------------- C05: the committed outbound set is the list of successful, surviving operations
	var model []*etxModel
	modelKnown := true
	_, txValue, txInput := (*common.Address)(nil), big0, []byte(nil)
	if c.txKind != "etx-in" {
		_, txValue, txInput = c.txData()
	} else {
		txValue = txValues[c.txVal]
	}
	switch {
	case tc.started:
		if !failed && tc.survivor != nil {
			model = tc.survivor.etxs
		}
	case c.txKind == "ext" || c.txKind == "lockup":
		modelKnown = false // no frame: judged below as one top-level operation
	}
	out := p.receipt.OutboundEtxs
	if tc.desync {
		simkit.Global.Inc("probe.model_desync_unreverted_failure")
	}
	if modelKnown {
		bad := ""
		if len(out) != len(model) {
			bad = fmt.Sprintf("receipt carries %d outbound ETXs, the surviving successful operations are %d", len(out), len(model))
		} else {
			for i := range out {
				if out[i].Hash() != model[i].tx.Hash() {
					bad = fmt.Sprintf("outbound ETX %d is not the one operation %d (%s) recorded", i, i, model[i].kind)
				} else if int(out[i].ETXIndex()) != i {
					bad = fmt.Sprintf("outbound ETX %d carries index %d", i, out[i].ETXIndex())
				}
			}
		}
		if bad != "" && !tc.desync {
			c.fail("C05", "etx-list-equals-model", fmt.Sprintf("%s status=%d", label, p.receipt.Status), bad)
		}
	} else {
		payerDebit := new(big.Int).Sub(c.pre.GetBalance(ip), p.st.GetBalance(ip))
		payerDebit.Sub(payerDebit, new(big.Int).Mul(gasUsed, price))
		wantEtx, wantDebit := 0, big0
		fn := ""
		if c.txKind == "ext" {
			if !failed {
				wantEtx, wantDebit = 1, txValue
			}
		} else {
			fn, _ = lockupInput(c.txArg, c.rg.blockNumber)
			if !failed && (fn == "claim-coinbase" || fn == "unwrap-qi") {
				wantEtx = 1
			}
		}
		wit := fmt.Sprintf("op=TX-%s%s status=%d", c.txKind, map[bool]string{true: " fn=" + fn}[fn != ""], p.receipt.Status)
		if len(out) != wantEtx || payerDebit.Cmp(wantDebit) != 0 {
			c.fail("C05", "op-atomicity", wit, fmt.Sprintf("top-level operation: %d outbound ETXs (want %d), sender debited %v beyond gas (want %v)", len(out), wantEtx, payerDebit, wantDebit))
		}
		if wantEtx == 1 && len(out) == 1 {
			e := out[0]
			if s := e.ETXSender(); e.ETXIndex() != 0 || !s.Equal(payerAddr) || (c.txKind == "ext" && e.Value().Cmp(txValue) != 0) {
				c.fail("C05", "op-atomicity", wit+" etx-fields", fmt.Sprintf("ETX index %d sender %x value %v", e.ETXIndex(), s.Bytes(), e.Value()))
			}
			kind, debit := "lockup-"+fn, big0
			if c.txKind == "ext" {
				kind, debit = "CALL-external", txValue
			}
			model = append(model, &etxModel{kind: kind, tx: e, debit: debit, value: debit})
		}
		if c.txKind == "lockup" && fn == "claim-coinbase" {
			for i := range w.seeds {
				claimed := lockAfter[i] != lockBefore[i]
				if claimed && (failed || wantEtx == 0 || !strings.HasPrefix(lockAfter[i], "0/0/0/")) {
					c.fail("C05", "op-atomicity", wit+" lockup-record-changed", fmt.Sprintf("lockup record %d: %s -> %s", i, lockBefore[i], lockAfter[i]))
				}
			}
		}
	}
	_ = txInput

	// ---------------- C02: nothing is created
	if failed {
		for _, a := range w.known {
			if a.Equal(payer) {
				continue
			}
			ia := mustInternal(a)
			if before, after := c.pre.GetBalance(ia), p.st.GetBalance(ia); before.Cmp(after) != 0 {
				c.fail("C02", "failed-tx-balance", label, fmt.Sprintf("balance of %x was %v before the failed transaction and is %v after it", a.Bytes(), before, after))
			}
		}
	}
	gasLimitBig := new(big.Int).SetUint64(p.gasLimit)
	minCharge, maxCharge := new(big.Int).Mul(gasUsed, price), new(big.Int).Mul(gasLimitBig, price)
	debits, carried, refunds, burns := new(big.Int), new(big.Int), new(big.Int), new(big.Int).Set(tc.burnAtEnd)
	for _, m := range model {
		debits.Add(debits, m.debit)   // stated value + prepaid fee: the most that may leave with the operations
		carried.Add(carried, m.value) // value the recorded ETXs carry: the least that must have left
	}
	if tc.survivor != nil && !failed {
		for _, sd := range tc.survivor.sds {
			refunds.Add(refunds, sd.refund)
			burns.Add(burns, sd.burn)
		}
	}
	inboundMax, inboundMin := new(big.Int), new(big.Int)
	lowCharge := minCharge
	switch c.txKind {
	case "etx-in":
		inboundMax.Set(txValue)
		if !failed {
			inboundMin.Set(txValue)
			// the zero address is only the vehicle of an inbound transfer: whatever it holds when execution ends is
			// dropped when its balance is put back (state_processor: "Residual balance will be lost")
			if z := tc.zeroAtEnd; z != nil && z.Sign() > 0 {
				burns.Add(burns, z)
				simkit.Global.Inc("probe.burn_residual_on_zero_address")
			}
		} else {
			simkit.Global.Inc("probe.burn_failed_inbound_etx")
		}
	case "suicide":
		if !failed {
			refunds.Add(refunds, c.rg.sdRefund())
			lowCharge = maxCharge // the unused gas of a self-destructing sender is not handed back
			if c.txArg.A%4 == 2 { // beneficiary is the sender itself: everything it held is destroyed
				burns.Add(burns, c.pre.GetBalance(ip))
				burns.Add(burns, c.rg.sdRefund())
			}
		}
	}
	upper := new(big.Int).Sub(w.sumPre, minCharge)
	upper.Sub(upper, carried).Add(upper, refunds).Add(upper, inboundMax)
	lower := new(big.Int).Sub(w.sumPre, lowCharge)
	lower.Sub(lower, debits).Add(lower, refunds).Add(lower, inboundMin).Sub(lower, burns)
	if burns.Sign() > 0 {
		simkit.Global.Inc("probe.documented_burn")
	}
	if tc.desync {
		upper, lower = sumAfter, sumAfter // no verdict on the sums
	}
	if sumAfter.Cmp(upper) > 0 {
		conds := map[string]bool{}
		for _, m := range model {
			if m.cond != "" && m.cond != "ok" {
				conds[m.kind+":"+m.cond] = true
			}
		}
		cl := make([]string, 0, len(conds))
		for k := range conds {
			cl = append(cl, k)
		}
		sort.Strings(cl)
		c.fail("C02", "tx-conservation", fmt.Sprintf("%s status=%d value-created outbound=[%s] %s", label, p.receipt.Status, strings.Join(cl, ","), c.rg.forkTag()),
			fmt.Sprintf("sum of balances before %v, after %v: more than before - gasUsed*price(%v) - value carried by outbound ETXs(%v) + selfdestruct refunds(%v) + inbound(%v) = %v (excess %v)",
				w.sumPre, sumAfter, minCharge, carried, refunds, inboundMax, upper, new(big.Int).Sub(sumAfter, upper)))
	}
	if sumAfter.Cmp(lower) < 0 {
		c.fail("C02", "value-destroyed", fmt.Sprintf("%s status=%d", label, p.receipt.Status),
			fmt.Sprintf("sum of balances before %v, after %v: less than before - charge(%v) - outbound(%v) + refunds(%v) + inbound(%v) - documented burns(%v) = %v (missing %v)",
				w.sumPre, sumAfter, lowCharge, debits, refunds, inboundMin, burns, lower, new(big.Int).Sub(lower, sumAfter)))
	}
	// the payer's gas charge
	if c.txKind != "etx-in" && !(c.txKind == "suicide" && !failed) {
		charge := new(big.Int).Sub(c.pre.GetBalance(ip), p.st.GetBalance(ip))
		if !failed && (c.txKind == "call" || c.txKind == "create" || c.txKind == "transfer" || c.txKind == "ext") {
			charge.Sub(charge, txValue)
		}
		if charge.Cmp(minCharge) < 0 || charge.Cmp(maxCharge) > 0 {
			c.fail("C02", "gas-charge-bounds", fmt.Sprintf("%s status=%d", label, p.receipt.Status), fmt.Sprintf("payer charged %v, gasUsed*price = %v, gasLimit*price = %v", charge, minCharge, maxCharge))
		}
	}
	// the next transaction of the same block: an account this transaction destroyed (whatever it was credited after its
	// self-destruct is burnt with it) is created afresh by a later transfer or creation landing on its address - empty.
	// (last use of this pass's state object: it is mutated here)
	for _, a := range w.known {
		in := mustInternal(a)
		if !c.pre.Exist(in) || p.st.Exist(in) {
			continue
		}
		p.st.CreateAccount(in)
		simkit.Global.Inc("probe.destroyed_account_recreated")
		if b := p.st.GetBalance(in); b.Sign() != 0 {
			c.fail("C02", "value-created", "recreated-account-inherits-balance "+label, fmt.Sprintf("account %x was destroyed by this transaction; created again by the next one it starts with a balance of %v", a.Bytes(), b))
		}
	}
}

// ---------------------------------------------------------------- the property function

func runBytecode(t *rapid.T, prop string) {
	defer simkit.EndOnKnown()
	tr := simkit.NewTrace()
	c := &caseCtx{caseSpec: drawCase(t, prop), t: t, tr: tr}
	c.build()
	defer c.w.close()
	tr.Event("prop=%s ptn=%d block=%d size=%v fee=%v price=%v elig=%d tx=%s/%d zero=%d seeds=%d backend=%s", prop, c.rg.ptn, c.rg.blockNumber, c.rg.quaiStateSize, c.rg.baseFee, c.rg.gasPrice,
		c.rg.eligMask, c.txKind, c.txVal, c.zeroBal, c.seedMask, backendNames[c.backend])
	for i, d := range c.prog.desc {
		tr.Event("contract %d bal=%d slots=%d: %s", i, c.bal[i], c.slotMask[i], strings.Join(d, ";"))
	}
	ample := uint64(ampleGas)
	if c.txKind == "etx-in" {
		ample = []uint64{5_000_000, 5_000_000, blockGasLimit/params.MinimumEtxGasDivisor + 1}[c.txArg.E%3]
	}

	// ---- access list: with enforcement drawn, a discovery pass (checks bypassed) collects what the run touches
	if c.enforce {
		d := c.exec(ample, -1, false, false, "discovery")
		addrs := map[common.AddressBytes][]common.Hash{}
		for _, a := range d.tc.touched {
			if _, ok := addrs[a.Bytes20()]; !ok {
				addrs[a.Bytes20()] = nil
			}
		}
		for ab, slots := range d.tc.slotsSeen {
			for s := range slots {
				addrs[ab] = append(addrs[ab], s)
			}
		}
		keys := make([]common.AddressBytes, 0, len(addrs))
		for ab := range addrs {
			keys = append(keys, ab)
		}
		sort.Slice(keys, func(i, j int) bool { return bytes.Compare(keys[i][:], keys[j][:]) < 0 })
		for i, ab := range keys {
			if c.omit < 4 && i == c.omit { // fault: one entry missing from the list
				simkit.Global.Inc("fault.access_list_entry_omitted")
				continue
			}
			slots := addrs[ab]
			sort.Slice(slots, func(i, j int) bool { return bytes.Compare(slots[i][:], slots[j][:]) < 0 })
			c.acl = append(c.acl, types.AccessTuple{Address: common.Bytes20ToAddress(ab, loc), StorageKeys: slots})
		}
	}

	// ---- ample-gas pass: full oracles, records the step boundaries
	a := c.exec(ample, -1, c.enforce, true, "ample")
	c.check(a)
	tr.Event("ample: err=%v status=%v gasUsed=%v steps=%d depth=%d etxs=%d", a.err != nil, rstatus(a), rgas(a), len(a.tc.steps), a.tc.maxDepth, retx(a))

	// ---- fault plan
	intrinsic := c.intrinsic()
	type fp struct {
		gas    uint64
		inject int
	}
	var plan []fp
	if a.err == nil {
		seenGas := map[uint64]bool{ample: true}
		var cuts []uint64
		for _, s := range a.tc.steps {
			if s.depth != 1 || s.gas > ample {
				continue
			}
			if l := ample - s.gas; l >= intrinsic && !seenGas[l] { // the top frame starts this step with exactly no gas left
				seenGas[l] = true
				cuts = append(cuts, l)
			}
		}
		if len(cuts) <= 40 {
			for _, l := range cuts {
				plan = append(plan, fp{l, -1})
			}
		} else {
			for _, s := range c.sel {
				plan = append(plan, fp{cuts[s%len(cuts)], -1})
			}
		}
		used := a.receipt.GasUsed
		for _, s := range c.sel { // arbitrary limits between the intrinsic gas and what the ample run used
			if used > intrinsic {
				if l := intrinsic + (used-intrinsic)*uint64(s%97)/97; !seenGas[l] {
					seenGas[l] = true
					plan = append(plan, fp{l, -1})
				}
			}
		}
		var inner []int
		for i, s := range a.tc.steps {
			if s.depth >= 2 && !noInject {
				inner = append(inner, i)
			}
		}
		if len(inner) <= 24 {
			for _, i := range inner {
				plan = append(plan, fp{ample, i})
			}
		} else {
			for _, s := range c.sel {
				plan = append(plan, fp{ample, inner[s%len(inner)]})
			}
		}
	}
	statuses := map[uint64]bool{}
	for _, f := range plan {
		what := "gas-cut"
		if f.inject >= 0 {
			what = "gas-exhaustion-injected"
		}
		p := c.exec(f.gas, f.inject, c.enforce, false, what)
		c.check(p)
		if f.inject >= 0 {
			if p.tc.injected {
				simkit.Global.Inc("fault.oog_injected_inner_frame")
			}
		} else {
			simkit.Global.Inc("fault.oog_cut")
		}
		if p.err == nil {
			statuses[p.receipt.Status] = true
		}
		tr.Event("%s gas=%d at=%d err=%v status=%v gasUsed=%v etxs=%d", what, f.gas, f.inject, p.err != nil, rstatus(p), rgas(p), retx(p))
	}

	// ---- statistics
	g := simkit.Global
	g.Inc("runs")
	g.Add("passes", int64(c.passes))
	g.Add("steps", int64(len(a.tc.steps)))
	g.Seen("trace", tr.Digest())
	tc := a.tc
	outOps := tc.counts["ETX"] + tc.counts["CONVERT"] + tc.counts["CALL-external"] + tc.counts["CALL-lockup"]
	failures := 0
	for _, n := range tc.failed {
		failures += n
	}
	nontrivial := false
	switch prop {
	case "C12": // at least two frames deep, 8 steps, and some frame or call failed in the ample run or a cut changed the outcome
		nontrivial = tc.maxDepth >= 2 && len(tc.steps) >= 8 && (failures > 0 || len(statuses) == 2)
	case "C05": // an outbound operation was actually executed
		nontrivial = outOps > 0 || ((c.txKind == "ext" || c.txKind == "lockup") && a.err == nil)
	case "C02": // value moved: an outbound operation, a self-destruct, a creation or a value-carrying call was executed
		nontrivial = a.err == nil && (outOps > 0 || tc.counts["SELFDESTRUCT"] > 0 || tc.counts["CREATE"]+tc.counts["CREATE2"] > 0 || txValues[c.txVal].Sign() > 0 || c.txKind == "suicide")
	}
	if nontrivial {
		g.Seen("nontrivial", tr.Digest())
	}
	g.Seen("regime", fmt.Sprintf("%d/%d/%v", c.rg.ptn, c.rg.blockNumber, c.rg.quaiStateSize))
	g.Seen("txkind", c.txKind)
	g.Seen("backend", backendNames[c.backend])
	for k, n := range tc.counts {
		if n > 0 {
			g.Add("op."+k, int64(n))
		}
	}
	if tc.maxDepth >= 3 {
		g.Inc("probe.depth3plus")
	}
	if failures > 0 && a.err == nil && a.receipt.Status == types.ReceiptStatusSuccessful {
		g.Inc("probe.inner_failure_outer_success")
	}
	if a.err == nil && len(a.receipt.OutboundEtxs) > 0 {
		g.Inc("probe.etx_committed")
	}
	if a.err == nil && a.receipt.Status == types.ReceiptStatusSuccessful && tc.innerEtxDropped {
		g.Inc("probe.etx_reverted_in_inner_frame_of_successful_tx")
	}
	if c.enforce {
		g.Inc("probe.access_list_enforced")
	}
	g.Sample(map[string]any{"prop": prop, "tx": c.txKind, "primeTerminus": c.rg.ptn, "block": c.rg.blockNumber, "contracts": c.prog.desc, "passes": c.passes, "steps": len(tc.steps)})
}

func rstatus(p *pass) any {
	if p.receipt == nil {
		return "-"
	}
	return p.receipt.Status
}
func rgas(p *pass) any {
	if p.receipt == nil {
		return "-"
	}
	return p.receipt.GasUsed
}
func retx(p *pass) int {
	if p.receipt == nil {
		return 0
	}
	return len(p.receipt.OutboundEtxs)
}

func TestC05(t *testing.T) {
	rapid.Check(t, func(t *rapid.T) { runBytecode(t, "C05") })
}

func TestC02(t *testing.T) {
	rapid.Check(t, func(t *rapid.T) { runBytecode(t, "C02") })
}

// TestC16 (EVM half): creations and value transfers aimed at foreign-zone and Qi-ledger addresses, judged by the scope oracles.
func TestC16(t *testing.T) {
	rapid.Check(t, func(t *rapid.T) { runBytecode(t, "C16") })
}

// TestC15 (EVM half): the same generated programs and gas cuts, judged only by the memory-accounting oracle in the tracer.
func TestC15(t *testing.T) {
	memStress = true
	defer func() { memStress = false }()
	rapid.Check(t, func(t *rapid.T) { runBytecode(t, "C15") })
}
