package evmsim

import (
	"bytes"
	"fmt"
	"math/big"
	"os"
	"sort"
	"strings"

	"github.com/dominant-strategies/go-quai/common"
	"github.com/dominant-strategies/go-quai/core/rawdb"
	"github.com/dominant-strategies/go-quai/core/state"
	"github.com/dominant-strategies/go-quai/core/vm"
	"github.com/dominant-strategies/go-quai/crypto"
	"github.com/dominant-strategies/go-quai/ethdb"
	"github.com/dominant-strategies/go-quai/ethdb/leveldb"
	"github.com/dominant-strategies/go-quai/ethdb/memorydb"
	"github.com/dominant-strategies/go-quai/ethdb/pebble"
	"github.com/dominant-strategies/go-quai/params"
	"github.com/dominant-strategies/go-quai/rlp"
	"github.com/dominant-strategies/go-quai/trie"
)

func scratchBase() string {
	if d := os.Getenv("VERIF_SCRATCH"); d != "" {
		return d
	}
	if st, err := os.Stat("/dev/shm"); err == nil && st.IsDir() {
		return "/dev/shm"
	}
	return os.TempDir()
}

var backendNames = []string{"memorydb", "leveldb", "pebble"}

// lockSeed is one record of the coinbase-lockup ledger present before the transaction.
type lockSeed struct {
	owner, miner common.Address
	lockupByte   byte
	epoch        uint32
	balance      *big.Int
	unlock       uint32
	elements     uint16
	delegate     common.Address
	inBatch      bool // written earlier in the same block (lives in the batch) instead of on disk
}

type acctSpec struct {
	addr    common.Address
	balance *big.Int
	nonce   uint64
	code    []byte
	slots   map[common.Hash]common.Hash
}

// world is the chain database + committed pre-state of one case.
type world struct {
	cfg      *params.ChainConfig
	dir      string
	kv       ethdb.KeyValueStore
	db       ethdb.Database
	sdb      state.Database
	etxdb    state.Database
	root0    common.Hash
	known    []common.Address
	knownSet map[common.AddressBytes]bool
	watch    map[common.AddressBytes][]common.Hash
	seeds    []lockSeed
	sumPre   *big.Int
}

func openWorld(backend int) *world {
	w := &world{knownSet: map[common.AddressBytes]bool{}, watch: map[common.AddressBytes][]common.Hash{}}
	cfg := *params.TestChainConfig
	cfg.Location = loc
	w.cfg = &cfg
	switch backendNames[backend] {
	case "memorydb":
		w.kv = memorydb.New(logger)
	default:
		dir, err := os.MkdirTemp(scratchBase(), "evmsim-")
		if err != nil {
			panic(err)
		}
		w.dir = dir
		if backendNames[backend] == "leveldb" {
			w.kv, err = leveldb.New(dir+"/db", 0, 0, "", false, logger, loc)
		} else {
			w.kv, err = pebble.New(dir+"/db", 0, 0, "", false, logger, loc)
		}
		if err != nil {
			os.RemoveAll(dir)
			panic(fmt.Sprintf("open %s: %v", backendNames[backend], err))
		}
	}
	w.db = rawdb.NewDatabase(w.kv)
	w.sdb = state.NewDatabase(w.db)
	w.etxdb = state.NewDatabase(rawdb.NewMemoryDatabase(logger))
	return w
}

func (w *world) close() {
	w.kv.Close()
	if w.dir != "" {
		os.RemoveAll(w.dir)
	}
}

func (w *world) know(a common.Address) {
	if a.Bytes()[0] != loc.BytePrefix() || a.IsInQiLedgerScope() {
		return // not an account of this chain's Quai ledger
	}
	if !w.knownSet[a.Bytes20()] {
		w.knownSet[a.Bytes20()] = true
		w.known = append(w.known, a)
	}
}

func slotKey(i int) common.Hash { return common.BigToHash(big.NewInt(int64(i))) }

// wrappedKey is the lockup contract's storage key of an owner's wrapped-Qi balance.
func wrappedKey(owner common.Address) common.Hash {
	return common.BytesToHash(mustInternal(owner).Bytes())
}

// depositKey is the lockup contract's storage key of a pending wrapped-Qi deposit.
func depositKey(owner, quaiOwner common.Address) common.Hash {
	var k common.Hash
	oi, qi := mustInternal(owner), mustInternal(quaiOwner)
	copy(k[:16], oi[:16])
	copy(k[16:], qi[:16])
	return k
}

// commitPre writes the accounts and the on-disk lockup records, and commits.
func (w *world) commitPre(accts []acctSpec, quaiStateSize *big.Int) {
	st, err := state.New(common.Hash{}, common.Hash{}, new(big.Int).Set(quaiStateSize), w.sdb, w.etxdb, nil, loc, logger)
	if err != nil {
		panic(err)
	}
	for _, a := range accts {
		ia := mustInternal(a.addr)
		st.SetNonce(ia, a.nonce)
		if a.balance != nil && a.balance.Sign() > 0 {
			st.AddBalance(ia, a.balance)
		}
		if len(a.code) > 0 {
			st.SetCode(ia, a.code)
		}
		keys := make([]common.Hash, 0, len(a.slots))
		for k := range a.slots {
			keys = append(keys, k)
		}
		sort.Slice(keys, func(i, j int) bool { return bytes.Compare(keys[i][:], keys[j][:]) < 0 })
		for _, k := range keys {
			st.SetState(ia, k, a.slots[k])
		}
		w.know(a.addr)
	}
	root, err := st.Commit(true)
	if err != nil {
		panic(err)
	}
	w.root0 = root
	for _, s := range w.seeds {
		if !s.inBatch {
			if _, err := rawdb.WriteCoinbaseLockup(w.db, s.owner, s.miner, s.lockupByte, s.epoch, s.balance, s.unlock, s.elements, s.delegate); err != nil {
				panic(err)
			}
		}
	}
	w.sumPre = w.sumBalances(st, root)
}

func (w *world) newState(quaiStateSize *big.Int) *state.StateDB {
	st, err := state.New(w.root0, common.Hash{}, new(big.Int).Set(quaiStateSize), w.sdb, w.etxdb, nil, loc, logger)
	if err != nil {
		panic(err)
	}
	return st
}

// newBatch opens the block's batch the way the state processor does (pending tracking on) and
// replays the lockups created earlier in the block.
func (w *world) newBatch() ethdb.Batch {
	b := w.db.NewBatch()
	b.SetPending(true)
	for _, s := range w.seeds {
		if s.inBatch {
			if _, err := rawdb.WriteCoinbaseLockup(b, s.owner, s.miner, s.lockupByte, s.epoch, s.balance, s.unlock, s.elements, s.delegate); err != nil {
				panic(err)
			}
		}
	}
	return b
}

// sumBalances adds up every account of the committed trie at root, and checks none is negative.
func (w *world) sumBalances(st *state.StateDB, root common.Hash) *big.Int {
	tr, err := w.sdb.OpenTrie(root)
	if err != nil {
		panic(fmt.Sprintf("open committed trie %x: %v", root, err))
	}
	sum := new(big.Int)
	it := trie.NewIterator(tr.NodeIterator(nil))
	for it.Next() {
		var acc state.Account
		if err := rlp.DecodeBytes(it.Value, &acc); err != nil {
			panic(fmt.Sprintf("account rlp: %v", err))
		}
		sum.Add(sum, acc.Balance)
	}
	if it.Err != nil {
		panic(it.Err)
	}
	return sum
}

// ---------------------------------------------------------------- world digest

type field struct{ kind, key, val string }

// snap is the observable world at one instant, gas excluded.
type snap struct {
	fields []field
}

func hstr(h common.Hash) string {
	if h == (common.Hash{}) {
		return "0"
	}
	return strings.TrimLeft(fmt.Sprintf("%x", h[:]), "0")
}

var emptyCodeHash = crypto.Keccak256Hash(nil)

// absentDefault is the value every per-account field has for an account the state has never heard of.
func absentDefault(kind string) string {
	switch kind {
	case "exists", "suicided":
		return "false"
	}
	return "0"
}

func (w *world) readLock(batch ethdb.Batch, s lockSeed) string {
	bal, unlock, elements, delegate := rawdb.ReadCoinbaseLockup(w.db, batch, s.owner, s.miner, s.lockupByte, s.epoch)
	d := ""
	if !delegate.Equal(common.Zero) {
		d = fmt.Sprintf("%x", delegate.Bytes())
	}
	return fmt.Sprintf("%v/%d/%d/%s", bal, unlock, elements, d)
}

// digest queries every known account through the public getters, plus the EVM-side ledgers.
func (w *world) digest(st *state.StateDB, env *vm.EVM, batch ethdb.Batch, txHash common.Hash) *snap {
	s := &snap{fields: make([]field, 0, len(w.known)*14+8)}
	add := func(kind, key, val string) { s.fields = append(s.fields, field{kind, key, val}) }
	for _, a := range w.known {
		ia := mustInternal(a)
		n := fmt.Sprintf("%x", a.Bytes())
		add("exists", n, fmt.Sprint(st.Exist(ia)))
		add("balance", n, st.GetBalance(ia).String())
		add("nonce", n, fmt.Sprint(st.GetNonce(ia)))
		ch := st.GetCodeHash(ia)
		if ch == emptyCodeHash {
			ch = common.Hash{}
		}
		add("code", n, hstr(ch))
		add("suicided", n, fmt.Sprint(st.HasSuicided(ia)))
		add("size", n, st.GetSize(ia).String())
		for i := 0; i < 4; i++ {
			add("storage", fmt.Sprintf("%s/%d", n, i), hstr(st.GetState(ia, slotKey(i))))
			add("transient", fmt.Sprintf("%s/%d", n, i), hstr(st.GetTransientState(ia, slotKey(i))))
		}
		for _, k := range w.watch[a.Bytes20()] {
			add("storage", fmt.Sprintf("%s/%x", n, k[:]), hstr(st.GetState(ia, k)))
		}
		add("access-list", n, fmt.Sprint(st.AddressInAccessList(a.Bytes20())))
	}
	add("refund", "", fmt.Sprint(st.GetRefund()))
	add("logs", "", fmt.Sprint(len(st.GetLogs(txHash, common.Hash{}))))
	if env != nil {
		env.ETXCacheLock.RLock()
		var sb strings.Builder
		for _, e := range env.ETXCache {
			fmt.Fprintf(&sb, "%x,", e.Hash().Bytes()[:6])
		}
		add("pending-etx", "", fmt.Sprintf("%d:%s", len(env.ETXCache), sb.String()))
		keys := make([]string, 0, len(env.CoinbasesDeleted))
		for k, v := range env.CoinbasesDeleted {
			keys = append(keys, fmt.Sprintf("%x=%x", k[:], v))
		}
		sort.Strings(keys)
		add("coinbases-deleted", "", strings.Join(keys, ","))
		add("deleted-hashes", "", fmt.Sprint(len(env.CoinbaseDeletedHashes)))
		env.ETXCacheLock.RUnlock()
	}
	for i, sd := range w.seeds {
		add("lockup-record", fmt.Sprint(i), w.readLock(batch, sd))
	}
	return s
}

// diff returns the fields of post that differ from pre (fields unknown to pre are compared with the
// value they have for an absent account).
func diff(pre, post *snap) []string {
	m := make(map[string]string, len(pre.fields))
	for _, f := range pre.fields {
		m[f.kind+"|"+f.key] = f.val
	}
	var out []string
	for _, f := range post.fields {
		want, ok := m[f.kind+"|"+f.key]
		if !ok {
			want = absentDefault(f.kind)
			if f.kind == "access-list" {
				continue
			}
		}
		if want != f.val {
			out = append(out, fmt.Sprintf("%s[%s]: %s -> %s", f.kind, f.key, want, f.val))
		}
	}
	return out
}

func diffKinds(d []string) string {
	seen := map[string]bool{}
	var kinds []string
	for _, l := range d {
		k := l[:strings.IndexByte(l, '[')]
		if !seen[k] {
			seen[k] = true
			kinds = append(kinds, k)
		}
	}
	sort.Strings(kinds)
	return strings.Join(kinds, "+")
}
