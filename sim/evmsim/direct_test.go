package evmsim

import (
	"bytes"
	"flag"
	"fmt"
	"math/big"
	"os"
	"sort"
	"strings"
	"testing"

	"github.com/dominant-strategies/go-quai/common"
	"github.com/dominant-strategies/go-quai/core/state"
	"github.com/dominant-strategies/go-quai/core/types"
	"pgregory.net/rapid"

	"verif/sim/simkit"
)

// ---------------------------------------------------------------- direct StateDB mode (C12)
//
// Sequences of StateDB mutations over 6 addresses and 4 slots with nested Snapshot /
// RevertToSnapshot.  The model is the observable world (what the public getters
// answer) with a stack of deep copies; only the effect of *reverting* is judged:
// what an operation does going forward is taken from a table that mirrors the
// StateDB's own forward behaviour.

var directAddrs = []common.Address{
	addr("0x0005000000000000000000000000000000000d00"), // funded account
	addr("0x0005000000000000000000000000000000000d01"), // contract with code and committed storage
	addr("0x0005000000000000000000000000000000000d02"), // contract with committed storage, no balance
	addr("0x0005000000000000000000000000000000000d03"), // absent
	addr("0x0005000000000000000000000000000000000d04"), // funded account
	addr("0x0005000000000000000000000000000000000d05"), // absent
}

var directKinds = []string{"addbal", "addbal", "subbal", "setnonce", "setcode", "setstate", "setstate", "clearstate", "suicide", "create", "addlog", "addrefund", "subrefund", "aladdr", "alslot", "tstore",
	"touch", "snapshot", "snapshot", "revert", "revert"}

var directCodes = [][]byte{nil, {0x60, 0x01, 0x00}, {0x5b, 0x5b, 0x00}}

type mAcct struct {
	exists   bool
	bal      *big.Int
	nonce    uint64
	code     []byte
	slots    [4]common.Hash
	suicided bool
	size     string
}

type mWorld struct {
	acct   [6]mAcct
	tslots [6][4]common.Hash
	refund uint64
	logs   int
	alAddr [6]bool
	alSlot [6][4]bool
}

func (m *mWorld) clone() *mWorld {
	c := *m
	for i := range c.acct {
		c.acct[i].bal = new(big.Int).Set(m.acct[i].bal)
	}
	return &c
}

func (m *mWorld) ensure(i int) *mAcct {
	a := &m.acct[i]
	if !a.exists {
		*a = mAcct{exists: true, bal: new(big.Int), size: "0"}
	}
	return a
}

type directOp struct{ K, A, S, V int }

var dopGen = rapid.Custom(func(t *rapid.T) directOp {
	return directOp{
		K: rapid.IntRange(0, len(directKinds)-1).Draw(t, "k"),
		A: rapid.IntRange(0, 5).Draw(t, "addr"),
		S: rapid.IntRange(0, 3).Draw(t, "slot"),
		V: rapid.IntRange(0, 7).Draw(t, "v"),
	}
})

type directRun struct {
	st     *state.StateDB
	m      *mWorld
	ids    []int
	snaps  []*mWorld
	spans  [][]string // operation kinds executed since each live snapshot
	txHash common.Hash
	hist   []string
}

var directTxHash = common.BytesToHash([]byte("evmsim-direct-tx"))

// directWorld commits the pre-state of the direct mode once per run.
func directWorld() *world {
	w := openWorld(0)
	one := func(i int) common.Hash { return common.BigToHash(big.NewInt(int64(0xD000 + i))) }
	w.commitPre([]acctSpec{
		{addr: directAddrs[0], balance: big.NewInt(1000), nonce: 3},
		{addr: directAddrs[1], balance: big.NewInt(500), nonce: 1, code: []byte{0x60, 0x00, 0x00}, slots: map[common.Hash]common.Hash{slotKey(0): one(0), slotKey(1): one(1), slotKey(2): one(2)}},
		{addr: directAddrs[2], nonce: 1, code: []byte{0x00}, slots: map[common.Hash]common.Hash{slotKey(0): one(3), slotKey(3): one(4)}},
		{addr: directAddrs[4], balance: big.NewInt(77)},
	}, big.NewInt(4))
	return w
}

// directModel0 reads, once per world, what the getters answer on the untouched pre-state.
func directModel0(w *world) *mWorld {
	st, m := w.newState(big.NewInt(4)), &mWorld{}
	for i, a := range directAddrs {
		ia := mustInternal(a)
		ma := &m.acct[i]
		ma.exists, ma.bal, ma.nonce, ma.code = st.Exist(ia), new(big.Int).Set(st.GetBalance(ia)), st.GetNonce(ia), st.GetCode(ia)
		ma.suicided, ma.size = st.HasSuicided(ia), st.GetSize(ia).String()
		for s := 0; s < 4; s++ {
			ma.slots[s] = st.GetState(ia, slotKey(s))
		}
	}
	return m
}

func newDirectRun(w *world, m0 *mWorld) *directRun {
	r := &directRun{st: w.newState(big.NewInt(4)), m: m0.clone()}
	r.st.Prepare(directTxHash, 0)
	r.push()
	return r
}

func (r *directRun) push() {
	r.ids = append(r.ids, r.st.Snapshot())
	r.snaps = append(r.snaps, r.m.clone())
	r.spans = append(r.spans, nil)
}

// compare lists the getter answers that differ from the model (all accounts, or only those given).
func (r *directRun) compare(only ...int) []string {
	var d []string
	ne := func(kind string, i int, got, want any) {
		d = append(d, fmt.Sprintf("%s[d%d]: model %v, StateDB %v", kind, i, want, got))
	}
	for i, a := range directAddrs {
		if len(only) > 0 && i != only[0] && i != only[len(only)-1] {
			continue
		}
		ia, ma := mustInternal(a), &r.m.acct[i]
		if g := r.st.Exist(ia); g != ma.exists {
			ne("exists", i, g, ma.exists)
		}
		if g := r.st.GetBalance(ia); g.Cmp(ma.bal) != 0 {
			ne("balance", i, g, ma.bal)
		}
		if g := r.st.GetNonce(ia); g != ma.nonce {
			ne("nonce", i, g, ma.nonce)
		}
		if g := r.st.GetCode(ia); !bytes.Equal(g, ma.code) {
			ne("code", i, fmt.Sprintf("%x", g), fmt.Sprintf("%x", ma.code))
		}
		if g := r.st.HasSuicided(ia); g != ma.suicided {
			ne("suicided", i, g, ma.suicided)
		}
		if g := r.st.GetSize(ia).String(); g != ma.size {
			ne("size", i, g, ma.size)
		}
		for s := 0; s < 4; s++ {
			k := slotKeys[s]
			if g := r.st.GetState(ia, k); g != ma.slots[s] {
				ne("storage", i, g, ma.slots[s])
			}
			if g := r.st.GetTransientState(ia, k); g != r.m.tslots[i][s] {
				ne("transient", i, g, r.m.tslots[i][s])
			}
			if _, g := r.st.SlotInAccessList(a.Bytes20(), k); g != r.m.alSlot[i][s] {
				ne("access-list", i, g, r.m.alSlot[i][s])
			}
		}
		if g := r.st.AddressInAccessList(a.Bytes20()); g != r.m.alAddr[i] {
			ne("access-list", i, g, r.m.alAddr[i])
		}
	}
	if g := r.st.GetRefund(); g != r.m.refund {
		ne("refund", 0, g, r.m.refund)
	}
	if g := len(r.st.GetLogs(directTxHash, common.Hash{})); g != r.m.logs {
		ne("logs", 0, g, r.m.logs)
	}
	return d
}

var slotKeys = [4]common.Hash{slotKey(0), slotKey(1), slotKey(2), slotKey(3)}

// apply executes one operation on the StateDB and on the model; returns the executed kind ("" if skipped).
func (r *directRun) apply(o directOp) string {
	kind := directKinds[o.K%len(directKinds)]
	i := o.A % 6
	ia := mustInternal(directAddrs[i])
	amount := big.NewInt(int64(1 + o.V*13))
	val := common.BigToHash(big.NewInt(int64(0xE000 + o.V)))
	note := func(format string, args ...any) {
		r.hist = append(r.hist, fmt.Sprintf(format, args...))
		for s := range r.spans {
			r.spans[s] = append(r.spans[s], kind)
		}
	}
	switch kind {
	case "addbal":
		note("AddBalance(d%d,%v)", i, amount)
		r.st.AddBalance(ia, amount)
		a := r.m.ensure(i)
		a.bal.Add(a.bal, amount)
	case "touch":
		note("AddBalance(d%d,0)", i)
		r.st.AddBalance(ia, new(big.Int))
		r.m.ensure(i)
	case "subbal":
		if r.m.acct[i].bal == nil || r.m.acct[i].bal.Cmp(amount) < 0 {
			return ""
		}
		note("SubBalance(d%d,%v)", i, amount)
		r.st.SubBalance(ia, amount)
		a := r.m.ensure(i)
		a.bal.Sub(a.bal, amount)
	case "setnonce":
		note("SetNonce(d%d,%d)", i, 10+o.V)
		r.st.SetNonce(ia, uint64(10+o.V))
		r.m.ensure(i).nonce = uint64(10 + o.V)
	case "setcode":
		code := directCodes[o.V%len(directCodes)]
		note("SetCode(d%d,%x)", i, code)
		r.st.SetCode(ia, code)
		r.m.ensure(i).code = code
	case "setstate", "clearstate":
		if kind == "clearstate" {
			val = common.Hash{}
		}
		note("SetState(d%d,slot%d,%x)", i, o.S, val[30:])
		r.st.SetState(ia, slotKey(o.S), val)
		r.m.ensure(i).slots[o.S] = val
	case "suicide":
		note("Suicide(d%d)", i)
		r.st.Suicide(ia)
		if a := &r.m.acct[i]; a.exists {
			a.suicided, a.bal, a.size = true, new(big.Int), "0"
		}
	case "create":
		note("CreateAccount(d%d)", i)
		r.st.CreateAccount(ia)
		old := r.m.acct[i]
		r.m.acct[i] = mAcct{exists: true, bal: new(big.Int), size: "0"}
		if old.exists { // balance and size counter are carried over
			r.m.acct[i].bal, r.m.acct[i].size = old.bal, old.size
		}
	case "addlog":
		note("AddLog")
		r.st.AddLog(&types.Log{Address: directAddrs[i]})
		r.m.logs++
	case "addrefund":
		note("AddRefund(%d)", 100+o.V)
		r.st.AddRefund(uint64(100 + o.V))
		r.m.refund += uint64(100 + o.V)
	case "subrefund":
		if r.m.refund < uint64(50+o.V) {
			return ""
		}
		note("SubRefund(%d)", 50+o.V)
		r.st.SubRefund(uint64(50 + o.V))
		r.m.refund -= uint64(50 + o.V)
	case "aladdr":
		note("AddAddressToAccessList(d%d)", i)
		r.st.AddAddressToAccessList(directAddrs[i].Bytes20())
		r.m.alAddr[i] = true
	case "alslot":
		note("AddSlotToAccessList(d%d,slot%d)", i, o.S)
		r.st.AddSlotToAccessList(directAddrs[i].Bytes20(), slotKey(o.S))
		r.m.alAddr[i], r.m.alSlot[i][o.S] = true, true
	case "tstore":
		note("SetTransientState(d%d,slot%d,%x)", i, o.S, val[30:])
		r.st.SetTransientState(ia, slotKey(o.S), val)
		r.m.tslots[i][o.S] = val
	case "snapshot":
		if len(r.ids) >= 6 {
			return ""
		}
		r.hist = append(r.hist, "Snapshot")
		r.push()
	default:
		panic("direct op " + kind)
	}
	return kind
}

// revertTo reverts to live snapshot idx; returns the differences from the model afterwards and the
// kinds of operation that were undone.
func (r *directRun) revertTo(idx int, only ...int) ([]string, []string) {
	r.hist = append(r.hist, fmt.Sprintf("RevertToSnapshot(#%d of %d)", idx, len(r.ids)))
	undone := r.spans[idx]
	r.st.RevertToSnapshot(r.ids[idx])
	r.m = r.snaps[idx]
	r.ids, r.snaps, r.spans = r.ids[:idx], r.snaps[:idx], r.spans[:idx]
	if idx == 0 {
		r.push() // keep a base snapshot alive
	} else {
		for s := range r.spans {
			r.spans[s] = append(r.spans[s], "revert")
		}
	}
	return r.compare(only...), undone
}

func kindSet(kinds []string) string {
	seen := map[string]bool{}
	var out []string
	for _, k := range kinds {
		if !seen[k] && k != "revert" {
			seen[k] = true
			out = append(out, k)
		}
	}
	sort.Strings(out)
	return strings.Join(out, "+")
}

func directFieldKinds(d []string) string {
	return diffKinds(d)
}

// finish reverts everything, and compares the state commitment with the one at entry — straight away
// and again after every account has been touched by a later transaction (which writes back whatever the
// cached state objects still hold).
func (r *directRun) finish(w *world, report func(class, witness, detail string), withRoots bool, only ...int) {
	d, undone := r.revertTo(0, only...)
	if len(d) > 0 {
		report("direct-digest", fmt.Sprintf("mode=direct field=%s undone=%s", directFieldKinds(d), kindSet(undone)), strings.Join(d, "\n  "))
		return
	}
	if !withRoots {
		return
	}
	if root := r.st.IntermediateRoot(true); root != w.root0 {
		report("direct-root", "mode=direct when=after-revert-to-entry", fmt.Sprintf("state root %x after reverting to the entry snapshot, %x at entry", root, w.root0))
		return
	}
	ref := w.newState(big.NewInt(4))
	for _, x := range []*state.StateDB{r.st, ref} {
		x.Prepare(common.BytesToHash([]byte("evmsim-direct-next-tx")), 1)
		for _, a := range directAddrs {
			x.AddBalance(mustInternal(a), big.NewInt(1))
		}
	}
	if got, want := r.st.IntermediateRoot(true), ref.IntermediateRoot(true); got != want {
		var sizes []string
		for i, a := range directAddrs {
			if g, wnt := r.st.GetSize(mustInternal(a)), ref.GetSize(mustInternal(a)); g.Cmp(wnt) != 0 {
				sizes = append(sizes, fmt.Sprintf("size[d%d]: %v want %v", i, g, wnt))
			}
		}
		report("direct-root", "mode=direct when=next-transaction-touches-accounts undone="+kindSet(undone), fmt.Sprintf("after everything was reverted, a following transaction credits 1 to each account: root %x, the same transaction on the untouched pre-state gives %x %v", got, want, sizes))
	}
}

func runDirect(t *rapid.T) {
	const P = "C12"
	defer simkit.EndOnKnown()
	tr := simkit.NewTrace()
	var tape []directOp
	for _, seg := range rapid.SliceOfN(rapid.SliceOfN(dopGen, 1, 12), 1, 6).Draw(t, "tape") {
		tape = append(tape, seg...)
	}
	w := directWorld()
	defer w.close()
	r := newDirectRun(w, directModel0(w))
	report := func(class, witness, detail string) {
		if simkit.Violation(t, tr, P, class, witness, fmt.Sprintf("%s\nhistory: %s", detail, strings.Join(r.hist, " ; "))) {
			panic(simkit.KnownReached{})
		}
	}
	tr.Event("mode=direct")
	kinds := map[string]bool{}
	reverts, maxNest := 0, 0
	for _, o := range tape {
		if directKinds[o.K%len(directKinds)] == "revert" {
			idx := o.V % len(r.ids)
			d, undone := r.revertTo(idx)
			tr.Event("revert %d", idx)
			reverts++
			simkit.Global.Inc(fmt.Sprintf("fault.revert_at_depth%d", min(len(r.ids)+1, 5)))
			if len(d) > 0 {
				report("direct-digest", fmt.Sprintf("mode=direct field=%s undone=%s", directFieldKinds(d), kindSet(undone)), strings.Join(d, "\n  "))
			}
			continue
		}
		if k := r.apply(o); k != "" {
			kinds[k] = true
			tr.Event("%s", r.hist[len(r.hist)-1])
		}
		if len(r.ids) > maxNest {
			maxNest = len(r.ids)
		}
	}
	if d := r.compare(); len(d) > 0 { // forward semantics: a mismatch here is a mistake of the model's table, not of the journal
		panic(fmt.Sprintf("evmsim: direct model out of step without a revert: %v\nhistory: %v", d, r.hist))
	}
	r.finish(w, report, true)
	g := simkit.Global
	g.Inc("runs")
	g.Add("ops", int64(len(r.hist)))
	g.Seen("trace", tr.Digest())
	// non-trivial: at least 8 executed operations of 4+ kinds, two snapshots nested and at least one revert
	if len(r.hist) >= 8 && len(kinds) >= 4 && maxNest >= 3 && reverts >= 1 {
		g.Seen("nontrivial", tr.Digest())
	}
	g.Seen("mode", "direct")
	g.Sample(map[string]any{"prop": P, "mode": "direct", "ops": r.hist})
}

// exhaustiveDirect enumerates every sequence of up to 3 mutation atoms x every (snapshot, revert) placement.
func exhaustiveDirect(t *testing.T) {
	const P = "C12"
	type atom struct {
		kind string
		a    int
	}
	var atoms []atom
	for _, k := range []string{"addbal", "subbal", "setnonce", "setcode", "setstate", "clearstate", "suicide", "create", "aladdr", "alslot", "tstore"} {
		atoms = append(atoms, atom{k, 1}) // d1: a contract with code, balance and committed storage
	}
	for _, k := range []string{"addbal", "setnonce", "setcode", "setstate", "suicide", "create", "touch"} {
		atoms = append(atoms, atom{k, 3}) // d3: absent
	}
	atoms = append(atoms, atom{"addlog", 1}, atom{"addrefund", 1})
	kindIdx := map[string]int{}
	for i, k := range directKinds {
		if _, ok := kindIdx[k]; !ok {
			kindIdx[k] = i
		}
	}
	w := directWorld()
	defer w.close()
	m0 := directModel0(w)
	cases := int64(0)
	reported := map[string]bool{}
	var seq []atom
	var rec func(want int)
	run := func(p, q int) {
		cases++
		r := newDirectRun(w, m0)
		report := func(class, witness, detail string) {
			if reported[class+witness] {
				return
			}
			reported[class+witness] = true
			simkit.Violation(t, nil, P, class, witness, fmt.Sprintf("%s\nhistory (exhaustive section): %s", detail, strings.Join(r.hist, " ; ")))
		}
		for i, at := range seq {
			if i == p {
				r.hist = append(r.hist, "Snapshot")
				r.push()
			}
			r.apply(directOp{K: kindIdx[at.kind], A: at.a, S: 1, V: 2})
			if i+1 == q {
				d, undone := r.revertTo(len(r.ids)-1, 1, 3)
				if len(d) > 0 {
					report("direct-digest", fmt.Sprintf("mode=direct field=%s undone=%s", directFieldKinds(d), kindSet(undone)), strings.Join(d, "\n  "))
					return
				}
			}
		}
		if len(seq) <= 2 {
			r.finish(w, report, true)
		} else {
			r.finish(w, report, false, 1, 3)
		}
	}
	rec = func(want int) {
		if len(seq) == want {
			for p := 0; p < len(seq); p++ {
				for q := p + 1; q <= len(seq); q++ {
					run(p, q)
				}
			}
			return
		}
		for _, at := range atoms {
			seq = append(seq, at)
			rec(want)
			seq = seq[:len(seq)-1]
		}
	}
	for l := 1; l <= 3; l++ { // shortest histories first
		rec(l)
	}
	simkit.Global.Add("probe.exhaustive_cases", cases)
}

func TestC12(t *testing.T) {
	// the deterministic section is left out when one recorded case is being replayed, and on request (the
	// switch is only used to measure how fast the seeded part alone finds a mutant)
	replay := false
	if f := flag.Lookup("rapid.failfile"); f != nil && f.Value.String() != "" {
		replay = true
	}
	if os.Getenv("EVMSIM_SKIP_EXHAUSTIVE") == "" && !replay {
		exhaustiveDirect(t)
	}
	if t.Failed() {
		return
	}
	rapid.Check(t, func(t *rapid.T) {
		if rapid.IntRange(0, 3).Draw(t, "mode") == 0 {
			runDirect(t)
		} else {
			runBytecode(t, "C12")
		}
	})
}
