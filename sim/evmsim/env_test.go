// S3 evmsim — seeded simulation of the EVM / StateDB journal / state-transition
// stack against small reference models.  Properties C12, C05, C02.
//
// Two workloads:
//
//   - direct mode (C12): one rapid tape = one sequence of StateDB mutations with
//     nested Snapshot / RevertToSnapshot, mirrored by a deep-copy model.
//   - bytecode mode (C12, C05, C02): one rapid tape = a set of contracts (each a
//     list of actions compiled by a tiny assembler), a transaction, a fork regime
//     and a fault plan.  The transaction goes through the real
//     core.ApplyTransaction (state transition, gas purchase / refund, Finalize,
//     UndoCoinbasesDeleted).  A vm.Tracer observes every interpreter step and
//     drives a trace-guided model: it is told which frames failed and predicts
//     what must then be true of the state.
//
// Faults: explicit REVERT / INVALID at drawn frame exits, inner frames starved of
// gas, the top-level gas limit cut at every (or a drawn subset of) interpreter
// step boundaries of the recorded ample-gas run, gas exhaustion injected at a
// drawn step, missing access-list entries, static-context writes, opcodes that do
// not exist yet in the drawn fork regime.
package evmsim

import (
	"io"
	"math/big"
	"os"
	"testing"

	"github.com/dominant-strategies/go-quai/common"
	"github.com/dominant-strategies/go-quai/consensus"
	"github.com/dominant-strategies/go-quai/core/types"
	"github.com/dominant-strategies/go-quai/core/vm"
	"github.com/dominant-strategies/go-quai/log"
	"github.com/sirupsen/logrus"

	"verif/sim/simkit"
)

var logger = log.NewLogger("", "error", 0)

var loc = common.Location{0, 0}

func TestMain(m *testing.M) {
	// the EVM reports rejected ETX / CONVERT operations on the global logger (stdout + ./nodelogs): silence it
	log.Global.SetOutput(io.Discard)
	log.Global.SetLevel(logrus.PanicLevel)
	logger.SetOutput(io.Discard)
	logger.SetLevel(logrus.PanicLevel)
	vm.InitializePrecompiles(loc)
	initWorldConstants()
	code := m.Run()
	simkit.Global.Flush()
	os.Exit(code)
}

// stubChain is the ChainContext handed to core.ApplyTransaction: it serves the one
// parent header, says that parent is a prime block (so the parent is the prime
// terminus and its EtxEligibleSlices are used), and answers ETX eligibility from
// a bitmask drawn by the tape.
type stubChain struct {
	parent   *types.WorkObject
	eligible func(common.Location) bool
}

func (c *stubChain) Engine(*types.WorkObjectHeader) consensus.Engine { return nil }
func (c *stubChain) GetHeaderOrCandidateByHash(common.Hash) *types.WorkObject {
	return c.parent
}
func (c *stubChain) NodeCtx() int                                      { return common.ZONE_CTX }
func (c *stubChain) IsGenesisHash(common.Hash) bool                    { return false }
func (c *stubChain) GetHeaderByHash(common.Hash) *types.WorkObject     { return c.parent }
func (c *stubChain) GetBlockByHash(hash common.Hash) *types.WorkObject { return c.parent }
func (c *stubChain) CheckIfEtxIsEligible(_ common.Hash, l common.Location) bool {
	if c.eligible == nil {
		return true
	}
	return c.eligible(l)
}
func (c *stubChain) CheckInCalcOrderCache(common.Hash) (*big.Int, int, bool) { return nil, 0, false }
func (c *stubChain) AddToCalcOrderCache(common.Hash, int, *big.Int)          {}
func (c *stubChain) CalcBaseFee(*types.WorkObject) *big.Int                  { return big.NewInt(1) }
func (c *stubChain) CalcOrder(*types.WorkObject) (*big.Int, int, error) {
	return big.NewInt(0), common.PRIME_CTX, nil
}
