package chainsim

import (
	"fmt"
	"math"
	"math/big"
	"os"
	"testing"

	"github.com/btcsuite/btcd/btcec/v2"
	"github.com/btcsuite/btcd/btcec/v2/schnorr/musig2"
	"github.com/dominant-strategies/go-quai/common"
	"github.com/dominant-strategies/go-quai/core"
	"github.com/dominant-strategies/go-quai/core/rawdb"
	"github.com/dominant-strategies/go-quai/core/types"
	"github.com/dominant-strategies/go-quai/crypto"
	"github.com/dominant-strategies/go-quai/ethdb"
	"github.com/dominant-strategies/go-quai/ethdb/leveldb"
	"github.com/dominant-strategies/go-quai/ethdb/memorydb"
	"github.com/dominant-strategies/go-quai/ethdb/pebble"
	"github.com/dominant-strategies/go-quai/params"

	"verif/sim/simkit"
)

type utxoSet map[string]Utxo

func scanSet(n *Node) utxoSet {
	s := utxoSet{}
	for _, u := range ScanUtxos(n.DBs[common.ZONE_CTX]) {
		s[u.Key()] = u
	}
	return s
}

// verifyQiSig is the harness's own check of a Qi transaction's authorisation: Schnorr over the signer's
// digest with the (MuSig2-aggregated) keys of its inputs.
func verifyQiSig(tx *types.Transaction) bool {
	signer := types.NewSigner(params.Blake3PowLocalChainConfig.ChainID, LocZone)
	var pubs []*btcec.PublicKey
	for _, in := range tx.TxIn() {
		pk, err := btcec.ParsePubKey(in.PubKey)
		if err != nil {
			return false
		}
		pubs = append(pubs, pk)
	}
	if len(pubs) == 0 || tx.GetSchnorrSignature() == nil {
		return false
	}
	key := pubs[0]
	if len(pubs) > 1 {
		agg, _, _, err := musig2.AggregateKeys(pubs, false)
		if err != nil {
			return false
		}
		key = agg.FinalKey
	}
	d := signer.Hash(tx)
	return tx.GetSchnorrSignature().Verify(d[:], key)
}

// checkQiBlock applies the Qi-ledger rules of C01 to one accepted block, given the stored UTXO set
// before (pre) and after (post) it.
func checkQiBlock(blk *types.WorkObject, pre, post utxoSet, fail func(class, witness, detail string)) {
	num := blk.NumberU64(common.ZONE_CTX)
	live := utxoSet{}
	for k, v := range pre {
		live[k] = v
	}
	consumed := map[string]bool{}
	createdByTx := map[string]bool{}
	etxHashes := map[common.Hash]*types.Transaction{}
	for ti, tx := range blk.Transactions() {
		if tx.Type() == types.ExternalTxType {
			etxHashes[tx.Hash()] = tx
			continue
		}
		if tx.Type() != types.QiTxType {
			continue
		}
		simkit.Global.Inc("probe.qi_tx_in_accepted_block")
		in := new(big.Int)
		seenInTx := map[string]bool{}
		for _, ti2 := range tx.TxIn() {
			k := fmt.Sprintf("%x:%d", ti2.PreviousOutPoint.TxHash, ti2.PreviousOutPoint.Index)
			if seenInTx[k] {
				fail("utxo-model", "outpoint-twice-in-one-tx", fmt.Sprintf("accepted block #%d tx %d names outpoint %s twice", num, ti, k))
				return
			}
			seenInTx[k] = true
			if consumed[k] {
				fail("utxo-model", "outpoint-spent-twice-in-block", fmt.Sprintf("accepted block #%d tx %d spends %s which an earlier transaction of the block already spent", num, ti, k))
				return
			}
			u, ok := live[k]
			if !ok {
				fail("utxo-model", "spends-nonexistent", fmt.Sprintf("accepted block #%d tx %d spends %s which is not unspent on this chain", num, ti, k))
				return
			}
			if createdByTx[k] {
				simkit.Global.Inc("probe.same_block_spend_of_new_output")
			}
			if u.Entry.Lock != nil && u.Entry.Lock.Uint64() > num {
				fail("utxo-model", "spends-locked", fmt.Sprintf("accepted block #%d tx %d spends %s locked until %v", num, ti, k, u.Entry.Lock))
				return
			}
			owner := crypto.PubkeyBytesToAddress(ti2.PubKey, LocZone)
			if owner.Bytes20() != common.AddressBytes(u.Entry.Address) {
				fail("utxo-model", "spent-by-non-owner", fmt.Sprintf("accepted block #%d tx %d spends %s owned by %x with key of %x", num, ti, k, u.Entry.Address, owner.Bytes()))
				return
			}
			in.Add(in, types.Denominations[u.Entry.Denomination])
			consumed[k] = true
			delete(live, k)
		}
		if !verifyQiSig(tx) {
			fail("utxo-model", "bad-signature-accepted", fmt.Sprintf("accepted block #%d tx %d %x is not signed by the (aggregated) keys of its inputs", num, ti, tx.Hash().Bytes()[:6]))
			return
		}
		out := new(big.Int)
		for oi, o := range tx.TxOut() {
			out.Add(out, types.Denominations[o.Denomination])
			a := common.BytesToAddress(o.Address, LocZone)
			if a.Location() != nil && a.Location().Equal(LocZone) && a.IsInQiLedgerScope() {
				k := fmt.Sprintf("%x:%d", tx.Hash(), oi)
				live[k] = Utxo{tx.Hash(), uint16(oi), &types.UtxoEntry{Denomination: o.Denomination, Address: o.Address, Lock: big.NewInt(0)}}
				createdByTx[k] = true
			}
		}
		if out.Cmp(in) > 0 {
			fail("utxo-model", "outputs-exceed-inputs", fmt.Sprintf("accepted block #%d tx %d creates %v qits from %v", num, ti, out, in))
			return
		}
	}
	// stored set after the block vs. the model: what disappeared was spent or trimmable; what appeared was a
	// transaction output or minted by an inbound ETX of this block, never exceeding that ETX's value
	minted := map[common.Hash]*big.Int{}
	for _, k := range SortedKeys(post) {
		if _, ok := live[k]; ok {
			u, m := post[k], live[k]
			if u.Entry.Denomination != m.Entry.Denomination || string(u.Entry.Address) != string(m.Entry.Address) {
				fail("utxo-model", "stored-output-differs", fmt.Sprintf("block #%d: stored UTXO %s is {denom %d owner %x}, the transaction created {denom %d owner %x}", num, k, u.Entry.Denomination, u.Entry.Address, m.Entry.Denomination, m.Entry.Address))
				return
			}
			continue
		}
		u := post[k]
		etx, ok := etxHashes[u.Hash]
		if !ok {
			fail("utxo-model", "qi-from-nothing", fmt.Sprintf("after block #%d the UTXO %s (denomination %d) exists although no transaction or inbound ETX of this chain created it", num, k, u.Entry.Denomination))
			return
		}
		if minted[etx.Hash()] == nil {
			minted[etx.Hash()] = new(big.Int)
		}
		minted[etx.Hash()].Add(minted[etx.Hash()], types.Denominations[u.Entry.Denomination])
	}
	for h, m := range minted {
		etx := etxHashes[h]
		bound := etx.Value()
		if types.IsCoinBaseTx(etx) && len(etx.Data()) > 0 && int(etx.Data()[0]) < len(params.LockupByteToBlockDepth) {
			bound = params.CalculateCoinbaseValueWithLockup(etx.Value(), etx.Data()[0], num) // the protocol's lockup bonus
		}
		if m.Cmp(bound) > 0 {
			fail("utxo-model", "etx-minted-more-than-value", fmt.Sprintf("block #%d: inbound ETX %x of value %v qits minted outputs worth %v", num, h[:6], etx.Value(), m))
			return
		}
		simkit.Global.Inc("probe.qi_minted_by_inbound_etx")
	}
	for _, k := range SortedKeys(live) {
		if _, ok := post[k]; ok {
			continue
		}
		u := live[k]
		depth, trimmable := types.TrimDepths[u.Entry.Denomination]
		if trimmable && u.Entry.Denomination <= types.MaxTrimDenomination && num > depth {
			simkit.Global.Inc("probe.utxo_trimmed")
			continue
		}
		fail("utxo-model", "unspent-output-vanished", fmt.Sprintf("after block #%d the UTXO %s (denomination %d) is gone although nothing spent it and it is not trimmable", num, k, u.Entry.Denomination))
		return
	}
	simkit.Global.Inc("blocks_model_checked")
}

// openEngineDisk opens the zone database of a run on the drawn engine (durable engines on a scratch dir).
func openEngineDisk(engine string, dir string, loc common.Location) (*SimDisk, error) {
	var kv ethdb.KeyValueStore
	var err error
	switch engine {
	case "leveldb":
		kv, err = leveldb.New(dir, 16, 16, "", false, quietLogger(), loc)
	case "pebble":
		kv, err = pebble.New(dir, 16, 16, "", false, quietLogger(), loc)
	default:
		kv = memorydb.New(quietLogger())
	}
	if err != nil {
		return nil, err
	}
	return NewSimDisk(rawdb.NewDatabase(kv), loc), nil
}

// directQiVerdicts drives core.ProcessQiTx - the validator's Qi path - with adversarial transactions over
// the node's current UTXO set, through one batch of the zone engine (so pending tracking is the engine's),
// and compares each verdict with the model's.
func directQiVerdicts(n *Node, arg int, fail func(class, witness, detail string), only ...string) {
	ph, err := n.PendingWork(n.Cfg.QuaiCoinbase)
	if err != nil {
		return
	}
	utxos := ScanUtxos(n.DBs[common.ZONE_CTX])
	num := ph.NumberU64(common.ZONE_CTX)
	var spendable, locked []Utxo
	if len(qiKeyByAddr) == 0 {
		registerQiKeys()
	}
	for _, u := range utxos {
		if qiKeyByAddr[common.AddressBytes(u.Entry.Address)] == nil || types.Denominations[u.Entry.Denomination].Cmp(big.NewInt(1000)) < 0 {
			continue
		}
		if u.Entry.Lock != nil && u.Entry.Lock.Uint64() > num {
			locked = append(locked, u)
		} else {
			spendable = append(spendable, u)
		}
	}
	if len(spendable) < 2 {
		return
	}
	hc := n.Zone().Slice().HeaderChain()
	db := n.DBs[common.ZONE_CTX]
	var batch ethdb.Batch
	var acceptedSoFar []*types.Transaction
	signer := types.NewSigner(params.Blake3PowLocalChainConfig.ChainID, LocZone)
	size := rawdb.ReadUTXOSetSize(db, ph.ParentHash(common.ZONE_CTX))
	scaling := math.Log(float64(size))
	freshOut := func(avoid []Utxo, k int, denom uint8) types.TxOut {
		used := map[common.AddressBytes]bool{}
		for _, u := range avoid {
			used[common.AddressBytes(u.Entry.Address)] = true
		}
		for i := 0; i < len(qiAccounts); i++ {
			a := qiAccounts[(k+i)%len(qiAccounts)].Addr
			if !used[a.Bytes20()] {
				return types.TxOut{Denomination: denom, Address: a.Bytes()}
			}
		}
		return types.TxOut{Denomination: denom, Address: qiAccounts[0].Addr.Bytes()}
	}
	checkSig := true
	cur := ph // the header the transaction is judged under (the fork-side section swaps in copies at other prime terminus heights)
	var lastCreated [][]byte
	process := func(tx *types.Transaction, first bool) error {
		gp := new(types.GasPool).AddGas(ph.GasLimit())
		var used uint64
		rl, pl := uint64(params.ETXRLimitMin), uint64(params.ETXPLimitMin)
		ucd := new(core.UtxosCreatedDeleted)
		ucd.AddressOutpointsToAddMap = make(map[[20]byte][]*types.OutpointAndDenomination)
		ucd.AddressOutpointsToRemoveMap = make(map[[20]byte][]*types.OutPoint)
		_, _, _, err, _ := core.ProcessQiTx(tx, hc, checkSig, first, cur, batch, db, gp, &used, signer, LocZone, *params.Blake3PowLocalChainConfig.ChainID, scaling, &rl, &pl, ucd, new(big.Int), new(big.Int), n.Cfg.IndexAddressUtxos)
		lastCreated = ucd.UtxosCreatedKeys
		return err
	}
	a, b := spendable[arg%len(spendable)], spendable[(arg+1)%len(spendable)]
	if a.Key() == b.Key() {
		return
	}
	type tc struct {
		name   string
		build  func() (*types.Transaction, error)
		accept bool
	}
	lower := func(u Utxo) uint8 { return u.Entry.Denomination - 1 } // pays the difference as fee
	var chainTx *types.Transaction
	cases := []tc{
		{"dup-outpoint-in-one-tx", func() (*types.Transaction, error) {
			return BuildQiTx([]Utxo{a, a}, []types.TxOut{freshOut([]Utxo{a}, arg, a.Entry.Denomination)}, nil, nil)
		}, false},
		{"wrong-key", func() (*types.Transaction, error) {
			wrong := qiAccounts[(arg+2)%len(qiAccounts)].Key
			if qiKeyByAddr[common.AddressBytes(a.Entry.Address)] == wrong {
				wrong = qiAccounts[(arg+3)%len(qiAccounts)].Key
			}
			return BuildQiTx([]Utxo{a}, []types.TxOut{freshOut([]Utxo{a}, arg, lower(a))}, nil, []*ecdsaKey{wrong})
		}, false},
		{"outputs-exceed-inputs", func() (*types.Transaction, error) {
			return BuildQiTx([]Utxo{a}, []types.TxOut{freshOut([]Utxo{a}, arg, a.Entry.Denomination), freshOut([]Utxo{a}, arg+1, lower(a))}, nil, nil)
		}, false},
		{"honest-spend", func() (*types.Transaction, error) {
			tx, err := BuildQiTx([]Utxo{a}, []types.TxOut{freshOut([]Utxo{a}, arg, lower(a))}, nil, nil)
			chainTx = tx
			return tx, err
		}, true},
		{"second-tx-same-outpoint-in-block", func() (*types.Transaction, error) {
			return BuildQiTx([]Utxo{a}, []types.TxOut{freshOut([]Utxo{a}, arg+2, lower(a))}, nil, nil)
		}, false},
		{"spend-output-created-earlier-in-block", func() (*types.Transaction, error) {
			if chainTx == nil {
				return nil, fmt.Errorf("no parent tx")
			}
			o := chainTx.TxOut()[0]
			if o.Denomination == 0 {
				return nil, fmt.Errorf("too small")
			}
			u := Utxo{chainTx.Hash(), 0, &types.UtxoEntry{Denomination: o.Denomination, Address: o.Address, Lock: big.NewInt(0)}}
			return BuildQiTx([]Utxo{u}, []types.TxOut{freshOut([]Utxo{u}, arg+3, o.Denomination-1)}, nil, nil)
		}, true},
		{"second-input-not-owned-same-pubkey", func() (*types.Transaction, error) {
			// the spender's own output first, then somebody else's presented with the spender's key; aggregate signature of [k, k]
			v := spendable[(arg+2)%len(spendable)]
			kb := qiKeyByAddr[common.AddressBytes(b.Entry.Address)]
			if v.Key() == b.Key() || qiKeyByAddr[common.AddressBytes(v.Entry.Address)] == kb {
				return nil, fmt.Errorf("no victim")
			}
			return BuildQiTx([]Utxo{b, v}, []types.TxOut{freshOut([]Utxo{b, v}, arg, lower(b))}, nil, []*ecdsaKey{kb})
		}, false},
		{"merge-small-notes-into-larger", func() (*types.Transaction, error) {
			// k notes of one denomination combined into one note of the next denomination (worth exactly or less than the k notes);
			// refused for every Qi transaction but the first of a block
			if chainTx == nil {
				return nil, fmt.Errorf("would be the first Qi transaction")
			}
			byDenom := map[uint8][]Utxo{}
			for _, u := range spendable {
				if u.Key() != a.Key() {
					byDenom[u.Entry.Denomination] = append(byDenom[u.Entry.Denomination], u)
				}
			}
			for d := uint8(0); int(d) < types.MaxDenomination; d++ {
				k := int(new(big.Int).Div(types.Denominations[d+1], types.Denominations[d]).Int64())
				if k <= 6 && len(byDenom[d]) >= k+1 { // one note more than needed: it pays the fee
					ins := byDenom[d][:k+1]
					return BuildQiTx(ins, []types.TxOut{freshOut(ins, arg, d+1)}, nil, nil)
				}
			}
			return nil, fmt.Errorf("no k notes of one denomination")
		}, false},
		{"output-to-in-zone-quai-address", func() (*types.Transaction, error) {
			// a plain payment (no conversion data) whose payee is a Quai-ledger address of this zone: no UTXO may be created for it
			return BuildQiTx([]Utxo{b}, []types.TxOut{{Denomination: lower(b), Address: quaiAccounts[arg%4].Addr.Bytes()}}, nil, nil)
		}, false},
		{"two-input-musig-honest", func() (*types.Transaction, error) {
			return BuildQiTx([]Utxo{b, spendable[(arg+2)%len(spendable)]}, []types.TxOut{freshOut([]Utxo{b, spendable[(arg+2)%len(spendable)]}, arg, lower(b))}, nil, nil)
		}, len(spendable) >= 3 && spendable[(arg+2)%len(spendable)].Key() != b.Key() && spendable[(arg+2)%len(spendable)].Key() != a.Key()},
	}
	if len(locked) > 0 {
		l := locked[arg%len(locked)]
		cases = append(cases, tc{"locked-input", func() (*types.Transaction, error) {
			return BuildQiTx([]Utxo{l}, []types.TxOut{freshOut([]Utxo{l}, arg, lower(l))}, nil, nil)
		}, false})
	}
	// a refused transaction leaves the batch half-written (a block containing it is discarded as a whole),
	// so every case runs on a fresh batch into which the transactions accepted so far are replayed first
	freshBatch := func() bool {
		batch = db.NewBatch()
		batch.SetPending(true)
		for i, tx := range acceptedSoFar {
			if err := process(tx, i == 0); err != nil {
				return false
			}
		}
		return true
	}
	for _, c := range cases {
		if c.name == "two-input-musig-honest" && !c.accept {
			continue
		}
		if len(only) > 0 && !containsAny(c.name, only...) {
			continue
		}
		tx, err := c.build()
		if err != nil || tx == nil {
			continue
		}
		if !freshBatch() {
			return
		}
		perr := process(tx, len(acceptedSoFar) == 0)
		if c.name == "merge-small-notes-into-larger" || c.name == "dup-outpoint-in-one-tx" || c.name == "outputs-exceed-inputs" || c.name == "output-to-in-zone-quai-address" || c.name == "locked-input" {
			// the verdict may not depend on whether the node has the transaction in its sender cache (signature check skipped)
			if freshBatch() {
				checkSig = false
				warm := process(tx, len(acceptedSoFar) == 0)
				checkSig = true
				if (warm == nil) != (perr == nil) {
					fail("direct-verdict", "case="+c.name+" verdict-depends-on-sender-cache", fmt.Sprintf("ProcessQiTx on [%s]: with the signature check %v, with the transaction in the sender cache (signature check skipped) %v", c.name, perr, warm))
					return
				}
				if !freshBatch() {
					return
				}
				perr = process(tx, len(acceptedSoFar) == 0)
			}
		}
		if perr == nil {
			acceptedSoFar = append(acceptedSoFar, tx)
		}
		simkit.Global.Inc("direct_qi_verdicts")
		simkit.Global.Inc("fault.qi_adversarial." + c.name)
		if (perr == nil) != c.accept {
			if c.accept {
				// an honest transaction refused: only a violation if the refusal is not about fees (fee floors depend on the exchange rate)
				if containsAny(perr.Error(), "fee", "gas") {
					simkit.Global.Inc("direct_qi_fee_refusals")
					continue
				}
				fail("direct-verdict", "case="+c.name+" refused", fmt.Sprintf("ProcessQiTx refused the legal transaction [%s]: %v", c.name, perr))
			} else {
				fail("direct-verdict", "case="+c.name+" accepted", fmt.Sprintf("ProcessQiTx accepted the illegal transaction [%s] (%x)", c.name, tx.Hash().Bytes()[:6]))
			}
			return
		}
	}
	// ---- both sides of every fork that gates the Qi validator (decided on copies of the pending header whose prime terminus
	// number is moved across the fork; a fork "at block F" is in force from F on): a Qi wrapping transaction and a Qi->Quai
	// conversion get the same verdict and store the same outputs at F and F+1, and at F-1 and F-2; once wrapping no longer
	// leaves a local output, no output is stored for a Quai-ledger owner.
	if len(only) > 0 && !containsAny("fork-sides", only...) {
		return
	}
	if !freshBatch() {
		return
	}
	spent := map[string]bool{}
	for _, tx := range acceptedSoFar {
		for _, in := range tx.TxIn() {
			spent[fmt.Sprintf("%x:%d", in.PreviousOutPoint.TxHash, in.PreviousOutPoint.Index)] = true
		}
	}
	var free *Utxo
	for i := range spendable {
		if u := spendable[(arg+i)%len(spendable)]; !spent[u.Key()] && u.Entry.Denomination > 0 {
			free = &u
			break
		}
	}
	if free == nil {
		return
	}
	owner := quaiAccounts[1].Addr
	wrap, err1 := BuildQiTx([]Utxo{*free}, []types.TxOut{{Denomination: lower(*free), Address: quaiAccounts[2].Addr.Bytes()}}, owner.Bytes(), nil)
	convData := append(make([]byte, 2), qiAccounts[1].Addr.Bytes()...) // slip + refund address
	conv, err2 := BuildQiTx([]Utxo{*free}, []types.TxOut{{Denomination: lower(*free), Address: quaiAccounts[6].Addr.Bytes()}}, convData, nil)
	if err1 != nil || err2 != nil {
		return
	}
	var diffOverride *big.Int // the simulated chain's difficulty (thousands) is far from what the post-fork reward formulas assume
	at := func(ptn uint64) *types.WorkObject {
		cp := types.CopyWorkObject(ph)
		h := cp.WorkObjectHeader()
		h.SetPrimeTerminusNumber(new(big.Int).SetUint64(ptn))
		if diffOverride != nil {
			h.SetDifficulty(new(big.Int).Set(diffOverride))
		}
		cp.Header().SetBaseFee(big.NewInt(1)) // the fee floor is not what is being judged here
		if ptn >= params.KawPowForkBlock {    // the post-fork header layout, as the rate functions expect it
			two32 := new(big.Int).Lsh(common.Big1, 32)
			h.SetScryptDiffAndCount(types.NewPowShareDiffAndCount(big.NewInt(1_000_000), new(big.Int).Set(two32), big.NewInt(0)))
			h.SetShaDiffAndCount(types.NewPowShareDiffAndCount(new(big.Int).Mul(params.InitialShaDiffMultiple, new(big.Int).Mul(params.MinDifficultyForShaEquivalentDifficulty, big.NewInt(3))), new(big.Int).Set(two32), big.NewInt(0)))
			h.SetShaShareTarget(new(big.Int).Set(two32))
			h.SetScryptShareTarget(new(big.Int).Set(two32))
			h.SetKawpowDifficulty(big.NewInt(1_000_000_000))
		}
		return cp
	}
	type outcome struct {
		accepted bool
		created  int
		quaiUtxo bool
	}
	judge := func(tx *types.Transaction, ptn uint64) (o outcome, ok bool) {
		if !freshBatch() {
			return o, false
		}
		cur = at(ptn)
		defer func() { cur = ph }()
		perr := guarded(func() error { return process(tx, len(acceptedSoFar) == 0) })
		if perr != nil && containsAny(perr.Error(), "panic:") {
			return o, false // header copy not good enough for this height: no verdict
		}
		o.accepted = perr == nil
		if os.Getenv("VERIF_FORKDEBUG") != "" {
			fmt.Printf("FORKDEBUG ptn=%d type-data=%d accepted=%v err=%v created=%d\n", ptn, len(tx.Data()), o.accepted, perr, len(lastCreated))
		}
		if o.accepted {
			o.created = len(lastCreated)
			for _, k := range lastCreated {
				if _, idx, err := rawdb.ReverseUtxoKey(k); err == nil && int(idx) < len(tx.TxOut()) {
					if common.AddressBytes(tx.TxOut()[idx].Address).IsInQuaiLedgerScope() {
						o.quaiUtxo = true
					}
				}
			}
		}
		return o, true
	}
	forks := []forkSide{{"qi-wrapping-change", params.QiWrappingChangeBlock}, {"kawpow", params.KawPowForkBlock}, {"kawpow-hold-end", params.KawPowForkBlock + params.KQuaiChangeHoldInterval},
		{"sha-equivalent", params.ShaEquivalentDifficultyForkBlock}, {"sha-equivalent-hold-end", params.ShaEquivalentDifficultyForkBlock + params.KQuaiChangeHoldInterval}}
	for _, f := range forks {
		for ti, tx := range []*types.Transaction{wrap, conv} {
			kind := []string{"wrap", "conversion"}[ti]
			// a difficulty under which the transaction's fee is judged sufficient well away from the fork (same on both sides)
			diffOverride = nil
			for _, d := range []*big.Int{nil, big.NewInt(1e12), big.NewInt(1e15)} {
				diffOverride = d
				if o, ok := judge(tx, f.at+5); ok && o.accepted {
					break
				}
			}
			for _, pair := range [][2]uint64{{f.at, f.at + 1}, {f.at - 1, f.at - 2}} {
				o1, ok1 := judge(tx, pair[0])
				o2, ok2 := judge(tx, pair[1])
				if !ok1 || !ok2 {
					continue
				}
				simkit.Global.Inc("qi_fork_sides_compared")
				if o1 != o2 {
					side := "at-and-after"
					if pair[0] < f.at {
						side = "before"
					}
					fail("direct-verdict", fmt.Sprintf("case=fork-sides tx=%s fork=%s side=%s", kind, f.name, side), fmt.Sprintf("a Qi %s transaction is judged %+v under prime terminus %d and %+v under %d (same side of the %s fork)", kind, o1, pair[0], o2, pair[1], f.name))
					return
				}
				if o1.accepted {
					simkit.Global.Inc("probe.qi_fork_side_with_accepted_tx")
				}
				if kind == "wrap" && f.name == "qi-wrapping-change" && pair[0] >= f.at && o1.quaiUtxo {
					fail("direct-verdict", "case=fork-sides tx=wrap quai-ledger-utxo-after-fork", fmt.Sprintf("under prime terminus %d (wrapping change at %d) the validator stores a Qi output owned by a Quai-ledger address", pair[0], f.at))
					return
				}
			}
		}
	}
}

// forkSides: see the end of directQiVerdicts.
type forkSide struct {
	name string
	at   uint64
}

func containsAny(s string, subs ...string) bool {
	for _, x := range subs {
		for i := 0; i+len(x) <= len(s); i++ {
			if s[i:i+len(x)] == x {
				return true
			}
		}
	}
	return false
}

func TestC01(t *testing.T) {
	chainPropertyCfg(t, "C01", true, func(r *Runner, fail func(class, witness, detail string)) Hooks {
		sets := map[common.Hash]utxoSet{}
		nHeads := 0
		return Hooks{
			AfterHead: func(w *World, n *Node, bi *BlockInfo, reorg bool) {
				post := scanSet(n)
				sets[bi.Hash] = post
				if reorg {
					return
				}
				pre, ok := sets[bi.Parent]
				if !ok {
					if bi.Parent != w.Gen {
						return
					}
					pre = utxoSet{}
				}
				blk := n.Zone().GetBlockByHash(bi.Hash)
				if blk == nil {
					return
				}
				checkQiBlock(blk, pre, post, fail)
				nHeads++
				if nHeads%3 == 0 {
					directQiVerdicts(n, nHeads+int(bi.Number), fail)
				}
			},
		}
	})
}

var _ = os.Getenv
