package chainsim

import (
	"crypto/ecdsa"
	"crypto/sha256"
	"fmt"
	"math/big"
	"os"
	"sort"
	"testing/synctest"

	"github.com/dominant-strategies/go-quai/common"
	"github.com/dominant-strategies/go-quai/core"
	"github.com/dominant-strategies/go-quai/core/rawdb"
	"github.com/dominant-strategies/go-quai/core/types"
	"github.com/dominant-strategies/go-quai/crypto"
	"github.com/dominant-strategies/go-quai/ethdb"
	"github.com/dominant-strategies/go-quai/params"
	orderedmap "github.com/wk8/go-ordered-map/v2"

	"verif/sim/simkit"
)

// ------------------------------------------------------------------ regime

// Regime is the per-run vector of protocol constants the harness overrides
// (all are package-level vars of go-quai). Apply returns the restore func.
type Regime struct {
	TimeToStartTx         uint64
	ControllerKickInBlock uint64
	ConversionLockPeriod  uint64
	CoinbaseEpochBlocks   uint64
	MinerDifficultyWindow uint64
	LockupDepth           [4]uint64
	TrimDepths            map[uint8]uint64
	BlocksPerMonth        uint64
	LockupPrecompileStart uint64
	// ConversionSlipChangeBlock: prime height of the fork that swapped the arguments of the cubic conversion discount
	ConversionSlipChangeBlock uint64
}

func DefaultRegime() Regime {
	return Regime{
		TimeToStartTx: 0, ControllerKickInBlock: 1, ConversionLockPeriod: 3, CoinbaseEpochBlocks: 8,
		MinerDifficultyWindow: params.MinerDifficultyWindow,
		LockupDepth:           [4]uint64{3, 5, 7, 9},
		TrimDepths:            map[uint8]uint64{0: 2, 1: 3, 2: 4, 3: 5, 4: 6, 5: 7},
		BlocksPerMonth:        3, LockupPrecompileStart: 0, ConversionSlipChangeBlock: 0,
	}
}

func (r Regime) Apply() (restore func()) {
	old := Regime{
		TimeToStartTx: params.TimeToStartTx, ControllerKickInBlock: params.ControllerKickInBlock,
		ConversionLockPeriod: params.ConversionLockPeriod, CoinbaseEpochBlocks: params.CoinbaseEpochBlocks,
		MinerDifficultyWindow: params.MinerDifficultyWindow,
		LockupDepth:           params.LockupByteToBlockDepth, TrimDepths: types.TrimDepths, BlocksPerMonth: params.BlocksPerMonth,
		LockupPrecompileStart: params.CoinbaseLockupPrecompileKickInHeight, ConversionSlipChangeBlock: params.ConversionSlipChangeBlock,
	}
	set := func(x Regime) {
		params.TimeToStartTx = x.TimeToStartTx
		params.ControllerKickInBlock = x.ControllerKickInBlock
		params.ConversionLockPeriod = x.ConversionLockPeriod
		params.CoinbaseEpochBlocks = x.CoinbaseEpochBlocks
		params.MinerDifficultyWindow = x.MinerDifficultyWindow
		params.LockupByteToBlockDepth = x.LockupDepth
		types.TrimDepths = x.TrimDepths
		params.BlocksPerMonth = x.BlocksPerMonth
		params.CoinbaseLockupPrecompileKickInHeight = x.LockupPrecompileStart
		params.ConversionSlipChangeBlock = x.ConversionSlipChangeBlock
	}
	set(r)
	return func() { set(old) }
}

// ------------------------------------------------------------------ keys

type Account struct {
	Key  *ecdsa.PrivateKey
	Addr common.Address
	Int  common.InternalAddress
}

// deterministicKey grinds a key from a fixed label until its address lies in
// zone 0-0 and in the wanted ledger. Pure function of (label, qi).
func deterministicKey(label string, qi bool) Account { return deterministicKeyFrom(label, qi, 0) }

// deterministicKeyFrom starts the grind at counter start (used for keys found once by a longer search).
func deterministicKeyFrom(label string, qi bool, start int) Account {
	for i := start; ; i++ {
		h := sha256.Sum256([]byte(fmt.Sprintf("verif-key/%s/%d", label, i)))
		k, err := crypto.ToECDSA(h[:])
		if err != nil {
			continue
		}
		a := crypto.PubkeyToAddress(k.PublicKey, LocZone)
		loc := a.Location()
		if loc == nil || !loc.Equal(LocZone) {
			continue
		}
		if a.IsInQiLedgerScope() != qi {
			continue
		}
		ia, err := a.InternalAddress()
		if err != nil {
			continue
		}
		return Account{Key: k, Addr: a, Int: ia}
	}
}

var (
	quaiAccounts []Account
	qiAccounts   []Account
)

func init() {
	// 0..3 funded general senders, 4 claim recipient, 5 coinbase, 6 recipient of Qi->Quai conversions (receives only),
	// 7 funded dedicated Quai->Qi converter (its only activity is conversions)
	for i := 0; i < 8; i++ {
		quaiAccounts = append(quaiAccounts, deterministicKey(fmt.Sprintf("quai%d", i), false))
	}
	for i := 0; i < 16; i++ {
		switch i {
		case 3: // a public key whose X coordinate has a leading zero byte (found once: counter 4453)
			qiAccounts = append(qiAccounts, deterministicKeyFrom("qizx", true, 4453))
		case 9: // ... whose Y coordinate has a leading zero byte (counter 79541)
			qiAccounts = append(qiAccounts, deterministicKeyFrom("qizy", true, 79541))
		default:
			qiAccounts = append(qiAccounts, deterministicKey(fmt.Sprintf("qi%d", i), true))
		}
	}
	if len(qiAccounts[3].Key.PublicKey.X.Bytes()) >= 32 || len(qiAccounts[9].Key.PublicKey.Y.Bytes()) >= 32 {
		panic("harness: the short-coordinate keys are not what they were found to be")
	}
}

func GenAllocs(n int, amount *big.Int) []params.GenesisAccount {
	var out []params.GenesisAccount
	idx := []int{}
	for i := 0; i < n; i++ {
		idx = append(idx, i)
	}
	idx = append(idx, 7)
	for _, i := range idx {
		om := orderedmap.New[uint64, *big.Int]()
		om.Set(0, new(big.Int).Set(amount))
		out = append(out, params.GenesisAccount{Address: quaiAccounts[i].Addr, Award: new(big.Int).Set(amount), Vested: new(big.Int).Set(amount), BalanceSchedule: om})
	}
	return out
}

// ------------------------------------------------------------------ world

// BlockInfo is the harness's record of one mined block.
type BlockInfo struct {
	Hash     common.Hash
	Parent   common.Hash // zone parent
	Number   uint64      // zone number
	Order    int
	Views    [3]*types.WorkObject // the block as each context of the producing node built it
	Producer int
}

type World struct {
	// PreDeliver, when set, runs between sealing a block and handing it to the node (byzantine peer window).
	PreDeliver func(n *Node, bi *BlockInfo, blk *types.WorkObject)
	TB         simkit.TB
	Tr         *simkit.Trace
	Nodes      []*Node
	Blocks     map[common.Hash]*BlockInfo
	Tips       []common.Hash // every mined block hash in mining order (index = block id)
	Gen        common.Hash
	outbox     []netMsg
	Nonces     map[int]uint64 // next nonce per quai account the harness will use
}

type netMsg struct {
	from  *Node
	ctx   int
	block *types.WorkObject
}

func (w *World) Broadcast(from *Node, ctx int, b *types.WorkObject) {
	w.outbox = append(w.outbox, netMsg{from, ctx, b})
}

func NewWorld(tb simkit.TB, tr *simkit.Trace) *World {
	return &World{TB: tb, Tr: tr, Blocks: map[common.Hash]*BlockInfo{}, Nonces: map[int]uint64{}}
}

func MemOpener() func(ctx int) ethdb.Database {
	dbs := map[int]ethdb.Database{}
	g := &GlobalLog{}
	return func(ctx int) ethdb.Database {
		if dbs[ctx] == nil {
			d := NewMemSimDisk(locOf(ctx), quietLogger())
			d.ID, d.G = ctx, g
			dbs[ctx] = d
		}
		return dbs[ctx]
	}
}

// Disk returns the SimDisk behind context ctx of the node.
func (n *Node) Disk(ctx int) *SimDisk { return n.DBs[ctx].(*SimDisk) }

func DefaultNodeConfig(name string) NodeConfig {
	cfg := NodeConfig{Name: name, Difficulty: 3000, TxPool: core.DefaultTxPoolConfig,
		QuaiCoinbase: quaiAccounts[5].Addr, QiCoinbase: qiAccounts[5].Addr,
		GenAllocs: GenAllocs(4, new(big.Int).Mul(big.NewInt(1_000_000_000), big.NewInt(params.Ether))),
		OpenDB:    MemOpener(),
	}
	cfg.TxPool.Journal = ""
	return cfg
}

func (w *World) AddNode(cfg NodeConfig) (*Node, error) {
	n, err := StartNode(cfg)
	if err != nil {
		return nil, err
	}
	n.Net = w
	w.Nodes = append(w.Nodes, n)
	synctest.Wait()
	if w.Gen == (common.Hash{}) {
		w.Gen = n.Zone().Genesis().Hash()
	}
	return n, nil
}

func (w *World) StopAll() {
	for _, n := range w.Nodes {
		n.Stop()
	}
}

// lineHeads returns the hashes of the prime- and region-level heads on the
// line of zone block tip (most recent ancestor-or-self of that order).
func (w *World) lineHeads(tip common.Hash) (prime, region common.Hash) {
	prime, region = w.Gen, w.Gen
	foundR := false
	for h := tip; h != w.Gen; {
		b := w.Blocks[h]
		if b == nil {
			break
		}
		if !foundR && b.Order <= common.REGION_CTX {
			region, foundR = h, true
		}
		if b.Order == common.PRIME_CTX {
			prime = h
			if !foundR {
				region, foundR = h, true
			}
			break
		}
		h = b.Parent
	}
	return
}

// SetHead makes zone block tip the head of node n (reorganising if needed) and
// regenerates the node's pending header on it.
func (w *World) SetHead(n *Node, tip common.Hash) error {
	ph, rh := w.lineHeads(tip)
	get := func(ctx int, h common.Hash) (*types.WorkObject, error) {
		b := n.Cores[ctx].GetBlockByHash(h)
		if b == nil {
			return nil, fmt.Errorf("node %s ctx %d does not have block %x", n.Cfg.Name, ctx, h[:4])
		}
		return b, nil
	}
	p, err := get(0, ph)
	if err != nil {
		return err
	}
	r, err := get(1, rh)
	if err != nil {
		return err
	}
	z, err := get(2, tip)
	if err != nil {
		return err
	}
	err = n.UpdateHeads(p, r, z)
	synctest.Wait()
	return err
}

// Fill runs one iteration of the worker's pending-header refresh (tx pool ->
// pending block), as the 1 s ticker of the node would.
func (w *World) Fill(n *Node) error {
	err := n.Zone().Slice().VerifFillPending()
	synctest.Wait()
	return err
}

// Mine seals the node's current pending header (searching nonces from start,
// until the block's order is wantOrder if wantOrder>=0 and reachable within
// the budget), submits it, delivers the node's own broadcasts (zone, region,
// prime) and moves the node's heads onto the new block.
func (w *World) Mine(n *Node, coinbase common.Address, start uint64, wantOrder int) (*BlockInfo, error) {
	ph, err := n.PendingWork(coinbase)
	if err != nil {
		return nil, fmt.Errorf("pending work: %w", err)
	}
	if coinbase.IsInQiLedgerScope() && ph.PrimeTerminusNumber().Uint64() < params.ControllerKickInBlock {
		// an honest miner does not ask for a Qi reward before the controller kick-in
		if ph, err = n.PendingWork(n.Cfg.QuaiCoinbase); err != nil {
			return nil, fmt.Errorf("pending work: %w", err)
		}
	}
	accept := func(wo *types.WorkObject) bool {
		if wantOrder < 0 {
			return true
		}
		_, o, err := n.Zone().CalcOrder(wo)
		return err == nil && o == wantOrder
	}
	if err := Seal(ph, start, 1<<16, accept); err != nil {
		if err2 := Seal(ph, start, 1<<22, nil); err2 != nil {
			return nil, err2
		}
	}
	blk, err := n.SubmitMined(ph)
	synctest.Wait()
	if err != nil {
		return nil, fmt.Errorf("submit mined: %w", err)
	}
	_, order, err := n.Zone().CalcOrder(blk)
	if err != nil {
		return nil, fmt.Errorf("calc order: %w", err)
	}
	bi := &BlockInfo{Hash: blk.Hash(), Parent: blk.ParentHash(common.ZONE_CTX), Number: blk.NumberU64(common.ZONE_CTX), Order: order, Producer: w.nodeIndex(n)}
	msgs := w.outbox
	w.outbox = nil
	for _, m := range msgs {
		bi.Views[m.ctx] = m.block
	}
	w.Blocks[bi.Hash] = bi
	w.Tips = append(w.Tips, bi.Hash)
	w.Tr.Event("mined n=%s #%d order=%d hash=%x txs=%d etxs=%d", n.Cfg.Name, bi.Number, order, bi.Hash[:6], len(blk.Transactions()), len(blk.OutboundEtxs()))
	if os.Getenv("VERIF_TRACE") != "" {
		for i, tx := range blk.Transactions() {
			w.Tr.Event("   tx[%d] type=%d hash=%x", i, tx.Type(), tx.Hash().Bytes()[:6])
		}
		for i, tx := range blk.OutboundEtxs() {
			w.Tr.Event("   etx[%d] etype=%d hash=%x val=%v", i, tx.EtxType(), tx.Hash().Bytes()[:6], tx.Value())
		}
		h := blk.Header()
		wh := blk.WorkObjectHeader()
		w.Tr.Event("   woh seal=%x hdrhash=%x nonce=%x txhash=%x pent=%v lock=%d time=%d diff=%v ptn=%v cb=%x data=%x", wh.SealHash().Bytes()[:4], wh.HeaderHash().Bytes()[:4], wh.Nonce(), wh.TxHash().Bytes()[:4], blk.ParentEntropy(2), wh.Lock(), wh.Time(), wh.Difficulty(), wh.PrimeTerminusNumber(), wh.PrimaryCoinbase().Bytes()[:3], wh.Data())
		w.Tr.Event("   hdr2 pde=%v,%v,%v pude=%v manifest=%x etxhash=%x etxrollup=%x uncle=%x receipt=%x exch=%v kqd=%v cfa=%v mdiff=%v interlink=%x extra=%x expn=%d elig=%x avgfee=%v totfee=%v statelimit=%d eff=%d thr=%d uent=%v psr=%x rsr=%x pth=%x", h.ParentDeltaEntropy(0), h.ParentDeltaEntropy(1), h.ParentDeltaEntropy(2), h.ParentUncledDeltaEntropyArray(), h.ManifestHashArray(), h.OutboundEtxHash().Bytes()[:4], h.EtxRollupHash().Bytes()[:4], h.UncleHash().Bytes()[:4], h.ReceiptHash().Bytes()[:4], h.ExchangeRate(), h.KQuaiDiscount(), h.ConversionFlowAmount(), h.MinerDifficulty(), h.InterlinkRootHash().Bytes()[:4], h.Extra(), h.ExpansionNumber(), h.EtxEligibleSlices().Bytes()[:4], h.AvgTxFees(), h.TotalFees(), h.StateLimit(), h.EfficiencyScore(), h.ThresholdCount(), h.UncledEntropy(), h.PrimeStateRoot().Bytes()[:4], h.RegionStateRoot().Bytes()[:4], h.PrimeTerminusHash().Bytes()[:4])
		w.Tr.Event("   hdr evm=%x utxo=%x etxset=%x gasUsed=%d time=%d base=%v stateUsed=%d", h.EVMRoot().Bytes()[:4], h.UTXORoot().Bytes()[:4], h.EtxSetRoot().Bytes()[:4], h.GasUsed(), blk.Time(), h.BaseFee(), h.StateUsed())
	}
	if w.PreDeliver != nil {
		// what a peer that saw the sealed block first can push at the node before the node processes it
		w.PreDeliver(n, bi, blk)
		synctest.Wait()
	}
	if err := w.Deliver(n, bi); err != nil {
		return bi, err
	}
	return bi, nil
}

// Deliver hands a block's views to node n in the order zone, region, prime.
func (w *World) Deliver(n *Node, bi *BlockInfo) error {
	for ctx := common.ZONE_CTX; ctx >= bi.Order; ctx-- {
		v := bi.Views[ctx]
		if v == nil {
			return fmt.Errorf("block %x has no view for ctx %d", bi.Hash[:4], ctx)
		}
		cp, err := roundTripBlock(v, locOf(ctx))
		if err != nil {
			return fmt.Errorf("codec round trip of block view ctx %d: %w", ctx, err)
		}
		n.Cores[ctx].WriteBlock(cp)
		synctest.Wait()
	}
	return nil
}

func (w *World) nodeIndex(n *Node) int {
	for i, x := range w.Nodes {
		if x == n {
			return i
		}
	}
	return -1
}

// Appended reports whether node n has fully appended the block (termini written).
func (n *Node) Appended(h common.Hash) bool {
	return rawdb.ReadTermini(n.DBs[common.ZONE_CTX], h) != nil && n.Zone().GetHeaderByHash(h) != nil
}

func roundTripBlock(b *types.WorkObject, loc common.Location) (*types.WorkObject, error) {
	pb, err := b.ProtoEncode(types.BlockObject)
	if err != nil {
		return nil, err
	}
	out := &types.WorkObject{}
	if err := out.ProtoDecode(pb, loc, types.BlockObject); err != nil {
		return nil, err
	}
	if out.Hash() != b.Hash() {
		return nil, fmt.Errorf("hash changed across wire round trip: %x -> %x", b.Hash(), out.Hash())
	}
	return out, nil
}

// ------------------------------------------------------------------ transactions

func (w *World) signer() types.Signer {
	return types.NewSigner(params.Blake3PowLocalChainConfig.ChainID, LocZone)
}

// QuaiTransfer builds a signed value transfer from account i.
func (w *World) QuaiTransfer(from int, to common.Address, value *big.Int, gasPrice *big.Int, gas uint64, data []byte, nonce uint64) (*types.Transaction, error) {
	inner := &types.QuaiTx{
		ChainID: params.Blake3PowLocalChainConfig.ChainID, Nonce: nonce, GasPrice: gasPrice, Gas: gas,
		To: &to, Value: value, Data: data,
	}
	return types.SignNewTx(quaiAccounts[from].Key, w.signer(), inner)
}

func sortedHashes(m map[common.Hash]struct{}) []common.Hash {
	out := make([]common.Hash, 0, len(m))
	for h := range m {
		out = append(out, h)
	}
	sort.Slice(out, func(i, j int) bool { return string(out[i][:]) < string(out[j][:]) })
	return out
}

// ViewsNumber returns the block's number in the given context.
func (b *BlockInfo) ViewsNumber(ctx int) uint64 {
	if v := b.Views[ctx]; v != nil {
		return v.NumberU64(ctx)
	}
	return b.Number
}
