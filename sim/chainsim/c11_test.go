package chainsim

import (
	"fmt"
	"runtime/debug"
	"strings"
	"testing"
	"testing/synctest"

	"github.com/dominant-strategies/go-quai/common"
	"github.com/dominant-strategies/go-quai/core/rawdb"
	"github.com/dominant-strategies/go-quai/ethdb"
	"pgregory.net/rapid"

	"verif/sim/simkit"
)

// fireAppendQueues plays the 200 ms append-queue tickers of the three contexts (dom first), rounds times.
func fireAppendQueues(n *Node, rounds int) {
	for i := 0; i < rounds; i++ {
		for ctx := 0; ctx < 3; ctx++ {
			n.Cores[ctx].VerifProcAppendQueue()
			synctest.Wait()
		}
	}
}

// guarded runs f and converts a panic escaping node code (including the CrashStop of a logger.Fatal) into an error.
func guarded(f func() error) (err error) {
	defer func() {
		if r := recover(); r != nil {
			if s := fmt.Sprint(r); len(s) >= 8 && s[:8] == "deadlock" {
				panic(r)
			}
			err = fmt.Errorf("panic: %v\n%s", r, trimStack(debug.Stack()))
		}
	}()
	return f()
}

// S6 crashsim: a history is run on a node whose disks record the global write-op log; then the process
// is "crashed" at drawn prefixes of that log, restarted on the surviving image, checked and driven on.
func TestC11(t *testing.T) {
	rapid.Check(t, func(rt *rapid.T) {
		defer simkit.EndOnKnown()
		c := drawCase(rt)
		c.Prologue = rapid.SampledFrom([]int{0, 1, 1, 2}).Draw(rt, "prologue11")
		cuts := rapid.SliceOfN(rapid.IntRange(0, 10000), 1, 5).Draw(rt, "cuts")
		snap := rapid.SliceOfN(rapid.IntRange(-2, 2), 1, 5).Draw(rt, "snapToBatch")
		// tuning knob (tools/srcpatch.json turns the constant into a variable with the same default): two runs in five use a
		// small ideal batch size, so that size-triggered flushes happen at the sizes a simulated chain reaches
		batchKnob := rapid.SampledFrom([]int{0, 0, 0, 512, 6 << 10}).Draw(rt, "idealBatchSize")
		if batchKnob > 0 {
			oldIdeal := ethdb.IdealBatchSize
			ethdb.IdealBatchSize = batchKnob
			defer func() { ethdb.IdealBatchSize = oldIdeal }()
			simkit.Global.Inc(fmt.Sprintf("knob.ideal_batch_size_%d", batchKnob))
		}
		tr := simkit.NewTrace()
		var v *violation
		fail := func(class, witness, detail string) {
			if v == nil {
				v = &violation{class, witness, detail}
			}
		}
		restore := DefaultRegime().Apply()
		defer restore()
		stats := map[string]int{}
		nblocks := 0
		inBubble(t, func() {
			w := NewWorld(nil, tr)
			n, err := w.AddNode(c.Cfg)
			if err != nil {
				panic(fmt.Sprintf("harness: cannot start node: %v", err))
			}
			r := &Runner{W: w, N: n, Head: w.Gen, Stats: stats}
			// the known C06 defect (an output spent and trimmed by one block) makes header commitments disagree with the
			// stored set from that block on, with or without a crash: such histories skip the commitment comparison
			tainted := false
			r.Hooks.AfterHead = func(w *World, n *Node, bi *BlockInfo, reorg bool) {
				if tainted {
					return
				}
				if root, count, err := UtxoRootOfDB(n); err == nil {
					hdr := n.Zone().GetHeaderByHash(bi.Hash)
					if root != hdr.UTXORoot() || count != rawdb.ReadUTXOSetSize(n.DBs[2], bi.Hash) {
						tainted = true
						simkit.Global.Inc("probe.history_tainted_by_known_c06_defect")
					}
				}
			}
			for _, op := range Prologue(c.Prologue) {
				if !r.Step(op) {
					panic("harness: prologue failed")
				}
			}
			var base [3]map[string][]byte
			for ctx := 0; ctx < 3; ctx++ {
				base[ctx] = n.Disk(ctx).Dump()
				n.Disk(ctx).Rec = true
			}
			for _, op := range c.Tape {
				tr.Event("op %s %d %d %d %d", opKindNames[op.Kind], op.A, op.B, op.C, op.D)
				if !r.Step(op) {
					break
				}
			}
			nblocks = len(w.Tips)
			finalHead := r.Head
			g := n.Disk(0).G.Entries
			finalImg := ChainStateImage(n, w.maxNumber())
			bothSpentAndTrimmed := spentAndTrimmed(w, n)
			n.Stop()
			synctest.Wait()
			if len(g) == 0 || finalHead == w.Gen {
				return
			}
			// indices of zone-disk batch commits (the block batch is among them): crash points are snapped near them
			var zoneBatches, utxoBatches []int
			for i, e := range g {
				if e.Disk == common.ZONE_CTX && e.Batch && len(e.Ops) > 1 {
					zoneBatches = append(zoneBatches, i)
					for _, op := range e.Ops {
						if (len(op.K) == rawdb.UtxoKeyLength && string(op.K[:2]) == "ut") || (len(op.K) == rawdb.CoinbaseLockupKeyLength && string(op.K[:2]) == "cl") {
							utxoBatches = append(utxoBatches, i)
							break
						}
					}
				}
			}
			if len(utxoBatches) > 0 {
				simkit.Global.Inc("probe.history_has_utxo_mutating_batch")
			}
			for ci, cut := range cuts {
				cp := cut * len(g) / 10000
				if len(zoneBatches) > 0 && ci < len(snap) && ci%2 == 0 {
					// every other crash point lands right around a multi-op zone batch: before it, after it, a few writes later
					cp = zoneBatches[cut%len(zoneBatches)] + 1 + snap[ci]
					if len(utxoBatches) > 0 {
						cp = utxoBatches[cut%len(utxoBatches)] + 1 + snap[ci]
					}
				}
				if cp < 0 {
					cp = 0
				}
				if cp > len(g) {
					cp = len(g)
				}
				where := "between-writes"
				if cp > 0 && cp <= len(g) && g[cp-1].Batch && g[cp-1].Disk == common.ZONE_CTX && len(g[cp-1].Ops) > 1 {
					where = "right-after-zone-batch"
					for _, ub := range utxoBatches {
						if ub == cp-1 {
							where = "right-after-utxo-mutating-block-batch"
						}
					}
				}
				tr.Event("crash at %d/%d (%s)", cp, len(g), where)
				simkit.Global.Inc("fault.crash_" + where)
				cfg := c.Cfg
				cfg.Name = fmt.Sprintf("restart%d", ci)
				imgs := map[int]ethdb.Database{}
				for ctx := 0; ctx < 3; ctx++ {
					imgs[ctx] = ImageAfter(base[ctx], g, cp, ctx, locOf(ctx), quietLogger())
				}
				cfg.OpenDB = func(ctx int) ethdb.Database { return imgs[ctx] }
				var rn *Node
				err := guarded(func() error {
					var e error
					rn, e = StartNode(cfg)
					return e
				})
				synctest.Wait()
				if err != nil {
					fail("restart-opens", "crash="+where, fmt.Sprintf("restart on the image after write %d of %d failed: %v", cp, len(g), err))
					return
				}
				rn.Net = w
				ok := func() bool {
					head := rn.Zone().CurrentHeader()
					hh := head.Hash()
					if hh != w.Gen {
						if _, err := rn.Zone().StateAt(head.EVMRoot(), head.EtxSetRoot(), head.QuaiStateSize()); err != nil {
							fail("restart-head-consistent", "crash="+where+" state-missing", fmt.Sprintf("after crash at write %d/%d the reported head #%d %x has no state: %v", cp, len(g), head.NumberU64(2), hh[:6], err))
							return false
						}
						root, count, err := UtxoRootOfDB(rn)
						size := rawdb.ReadUTXOSetSize(rn.DBs[2], hh)
						if !tainted && (err != nil || root != head.UTXORoot() || count != size) {
							fail("restart-head-consistent", "crash="+where+" utxo-set-vs-head", fmt.Sprintf("after crash at write %d/%d the reported head is #%d %x (UTXORoot %x, size %d) but the stored UTXO set hashes to %x with %d records (err %v): block effects are applied without the head having advanced, or half applied", cp, len(g), head.NumberU64(2), hh[:6], head.UTXORoot(), size, root, count, err))
							return false
						}
					}
					simkit.Global.Inc("crash_images_head_consistent")
					// drive on: re-deliver the line of the original final head; every block must end up appended and become head
					line := w.lineOf(finalHead)
					err := guarded(func() error {
						for _, b := range line {
							if err := w.Deliver(rn, b); err != nil {
								return fmt.Errorf("deliver #%d: %w", b.Number, err)
							}
						}
						// bound of the progress clause: a dominant block whose subordinate's pending ETXs did not survive the crash is retried
						// c_pEtxRetryThreshold (10) times before the dominant chain asks the subordinate for them again
						fireAppendQueues(rn, 3*len(line)+40)
						for _, b := range line {
							if !rn.Appended(b.Hash) {
								return fmt.Errorf("block #%d %x (order %d) of the original chain cannot be appended after the restart", b.Number, b.Hash[:6], b.Order)
							}
						}
						return w.SetHead(rn, finalHead)
					})
					w.outbox = nil
					if err != nil {
						diag := ""
						for _, b := range line {
							for ctx := b.Order; ctx <= common.ZONE_CTX; ctx++ {
								c := rn.Cores[ctx]
								hasH, hasB := c.GetHeaderByHash(b.Hash) != nil, c.GetBlockByHash(b.Hash) != nil
								ter := rawdb.ReadTermini(rn.DBs[ctx], b.Hash) != nil
								if !hasH || !hasB || !ter {
									diag += fmt.Sprintf("\n  #%d %x order %d at ctx %d: header=%v block=%v termini=%v", b.Number, b.Hash[:4], b.Order, ctx, hasH, hasB, ter)
								}
							}
						}
						fail("reappend-ok", "crash="+where, fmt.Sprintf("after crash at write %d/%d (head on restart #%d %x): %v%s", cp, len(g), head.NumberU64(2), hh[:6], err, diag))
						return false
					}
					img := ChainStateImage(rn, w.maxNumber())
					if d := DiffImages(finalImg, img); d != "[]" {
						// the uncrashed node reorganised during the run, the recovered one only followed the final line: the known duplicate
						// address-index entries after rolling back a block that spent and trimmed one output (C10 finding) are attributed
						fail("recovered-equals-uncrashed", "crash="+where+" differs="+classifyDiff(finalImg, img)+dedupeIndexDuplicates(bothSpentAndTrimmed, finalImg, img), fmt.Sprintf("after crash at write %d/%d, restart and re-delivery of the chain, the chain state differs from the uncrashed node (left=uncrashed, right=recovered): %s", cp, len(g), d))
						return false
					}
					simkit.Global.Inc("crash_images_recovered")
					return true
				}()
				rn.Stop()
				synctest.Wait()
				if !ok {
					return
				}
			}
		})
		g := simkit.Global
		g.Inc("runs")
		g.Add("blocks", int64(nblocks))
		for _, k := range SortedKeys(stats) {
			g.Add("stat."+k, int64(stats[k]))
		}
		g.Seen("trace", tr.Digest())
		if nblocks >= 4 {
			g.Seen("nontrivial", tr.Digest())
		}
		g.Sample(map[string]any{"prologue": c.Prologue, "ops": renderTape(c.Tape), "cuts": cuts})
		nl := NodeLog.String()
		if len(nl) > 3000 {
			nl = nl[len(nl)-3000:]
		}
		NodeLog.Reset()
		if v != nil {
			if nl != "" {
				v.detail += "\nnodelog tail:\n" + nl
			}
			if simkit.Violation(rt, tr, "C11", v.class, v.witness, fmt.Sprintf("%s\nprologue=%d tape=%v cuts=%v snap=%v idealBatchSize=%d", v.detail, c.Prologue, renderTape(c.Tape), cuts, snap, batchKnob)) {
				panic(simkit.KnownReached{})
			}
		}
	})
}

// trimStack keeps the frames of a panic's stack that lie in the repository under test.
func trimStack(b []byte) string {
	var keep []string
	lines := strings.Split(string(b), "\n")
	for i := 0; i+1 < len(lines); i++ {
		if strings.Contains(lines[i+1], "/repo/") || strings.Contains(lines[i+1], "go-quai") {
			keep = append(keep, strings.TrimSpace(lines[i])+" @ "+strings.TrimSpace(lines[i+1]))
			i++
		}
		if len(keep) >= 8 {
			break
		}
	}
	return strings.Join(keep, "\n")
}
