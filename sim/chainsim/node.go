// Package chainsim is harness S5/S6: a whole go-quai node (prime + region +
// zone cores built by core.NewCore, wired through an in-process CoreBackend
// adapter) driven by a scheduler that owns mining, head selection, message
// delivery, storage and crashes.
package chainsim

import (
	"bytes"
	"errors"
	"fmt"
	"io"
	"math/big"
	"os"
	"sort"
	"sync"

	"github.com/dominant-strategies/go-quai/common"
	"github.com/dominant-strategies/go-quai/consensus"
	"github.com/dominant-strategies/go-quai/consensus/blake3pow"
	"github.com/dominant-strategies/go-quai/core"
	"github.com/dominant-strategies/go-quai/core/rawdb"
	"github.com/dominant-strategies/go-quai/core/types"
	"github.com/dominant-strategies/go-quai/core/vm"
	"github.com/dominant-strategies/go-quai/ethdb"
	"github.com/dominant-strategies/go-quai/log"
	"github.com/dominant-strategies/go-quai/params"
	"github.com/sirupsen/logrus"
	"lukechampine.com/blake3"
)

// CrashStop is the sentinel panicked by a node logger's Fatal: the simulated
// process dies at that point (DESIGN §2.4).
type CrashStop struct{ Msg string }

// StopPanics counts panics escaping Core.Stop (observed: nil best pending header).
var StopPanics int

// NodeLog collects node log lines when VERIF_NODELOG is set (debugging aid only).
var NodeLog bytes.Buffer

func quietLogger() *log.Logger {
	l := logrus.New()
	l.SetOutput(io.Discard)
	l.SetLevel(logrus.FatalLevel)
	if lvl := os.Getenv("VERIF_NODELOG"); lvl != "" {
		if pl, err := logrus.ParseLevel(lvl); err == nil {
			l.SetLevel(pl)
			l.SetOutput(&NodeLog)
			l.SetFormatter(&logrus.TextFormatter{DisableTimestamp: true, DisableColors: true})
		}
	}
	l.AddHook(fatalHook{})
	l.ExitFunc = func(int) { panic(CrashStop{"logger.Fatal: " + lastFatal}) }
	return l
}

// fatalHook remembers the message of the last Fatal entry so that the CrashStop can say what the node died of.
type fatalHook struct{}

var lastFatal string

func (fatalHook) Levels() []logrus.Level { return []logrus.Level{logrus.FatalLevel, logrus.PanicLevel} }
func (fatalHook) Fire(e *logrus.Entry) error {
	lastFatal = e.Message
	for _, k := range []string{"err", "error"} {
		if v, ok := e.Data[k]; ok {
			lastFatal += fmt.Sprintf(" (%v)", v)
		}
	}
	return nil
}

func init() {
	log.Global.SetOutput(io.Discard)
	log.Global.SetLevel(logrus.FatalLevel)
	log.Global.AddHook(fatalHook{})
	log.Global.ExitFunc = func(int) { panic(CrashStop{"log.Global.Fatal: " + lastFatal}) }
}

// NodeConfig is the per-run drawn configuration of one simulated node.
type NodeConfig struct {
	Name              string
	Difficulty        int64
	GenAllocs         []params.GenesisAccount
	QuaiCoinbase      common.Address
	QiCoinbase        common.Address
	MinerPreference   float64
	CoinbaseLockup    uint8
	LockupContract    *common.Address
	IndexAddressUtxos bool
	TrieCleanLimit    int
	SnapshotLimit     int
	TxPool            core.TxPoolConfig
	// OpenDB opens (or re-opens) the database of the given context; the harness owns storage.
	OpenDB func(ctx int) ethdb.Database
	// CloseDB, if set, is called inside the bubble after the node stopped (durable engines).
	CloseDB func()
}

var (
	LocPrime  = common.Location{}
	LocRegion = common.Location{0}
	LocZone   = common.Location{0, 0}
)

type Node struct {
	coresMu sync.RWMutex // guards Cores against the start-up goroutines of the cores themselves
	Cfg     NodeConfig
	Cores   [3]*core.Core // prime, region, zone
	DBs     [3]ethdb.Database
	Logger  *log.Logger
	Net     Network
	// blocks this node has produced or received, per context view
	stopped bool
}

// Network is what a node's backends broadcast into (simnet implements it).
type Network interface {
	Broadcast(from *Node, ctx int, block *types.WorkObject)
}

type backend struct {
	n   *Node
	ctx int
}

// c is called from goroutines the cores spawn while StartNode is still wiring the node: the slot is read under the node's lock.
func (b *backend) c() *core.Core {
	b.n.coresMu.RLock()
	defer b.n.coresMu.RUnlock()
	return b.n.Cores[b.ctx]
}

func (b *backend) AddPendingEtxs(p types.PendingEtxs) error { return b.c().AddPendingEtxs(p) }
func (b *backend) AddPendingEtxsRollup(p types.PendingEtxsRollup) error {
	return b.c().AddPendingEtxsRollup(p)
}
func (b *backend) RequestDomToAppendOrFetch(hash common.Hash, entropy *big.Int, order int) {
	b.c().RequestDomToAppendOrFetch(hash, entropy, order)
}
func (b *backend) Append(header *types.WorkObject, manifest types.BlockManifest, domTerminus common.Hash, domOrigin bool, newInboundEtxs types.Transactions) (types.Transactions, error) {
	return b.c().Append(header, manifest, domTerminus, domOrigin, newInboundEtxs)
}
func (b *backend) DownloadBlocksInManifest(hash common.Hash, manifest types.BlockManifest, entropy *big.Int) {
	b.c().DownloadBlocksInManifest(hash, manifest, entropy)
}
func (b *backend) GenerateRecoveryPendingHeader(ph *types.WorkObject, cp types.Termini) error {
	return b.c().GenerateRecoveryPendingHeader(ph, cp)
}
func (b *backend) GetPendingEtxsRollupFromSub(hash common.Hash, location common.Location) (types.PendingEtxsRollup, error) {
	return b.c().GetPendingEtxsRollupFromSub(hash, location)
}
func (b *backend) GetPendingEtxsFromSub(hash common.Hash, location common.Location) (types.PendingEtxs, error) {
	return b.c().GetPendingEtxsFromSub(hash, location)
}
func (b *backend) NewGenesisPendingHeader(ph *types.WorkObject, domTerminus common.Hash, hash common.Hash) error {
	return b.c().NewGenesisPendigHeader(ph, domTerminus, hash)
}
func (b *backend) GetManifest(blockHash common.Hash) (types.BlockManifest, error) {
	return b.c().GetManifest(blockHash)
}
func (b *backend) GetPrimeBlock(blockHash common.Hash) *types.WorkObject {
	return b.c().GetPrimeBlock(blockHash)
}
func (b *backend) GetKQuaiAndUpdateBit(blockHash common.Hash) (*big.Int, uint8, error) {
	return b.c().GetKQuaiAndUpdateBit(blockHash)
}

// ReceiveMinedHeader is what quai.QuaiAPIBackend.ReceiveMinedHeader does for a
// dominant context: build the local view of the mined block and broadcast it.
func (b *backend) ReceiveMinedHeader(wo *types.WorkObject) error {
	block, err := b.c().ReceiveMinedHeader(wo)
	if err != nil {
		return err
	}
	if block.Header() != nil && b.n.Net != nil {
		b.n.Net.Broadcast(b.n, b.ctx, block)
	}
	return nil
}

func locOf(ctx int) common.Location {
	switch ctx {
	case common.PRIME_CTX:
		return LocPrime
	case common.REGION_CTX:
		return LocRegion
	}
	return LocZone
}

// Genesis is shared by all nodes of a run.
func MakeGenesis(difficulty int64) *core.Genesis {
	g := core.DefaultLocalGenesisBlock("blake3", 0, nil)
	cfg := *params.Blake3PowLocalChainConfig
	g.Config = &cfg
	g.Difficulty = big.NewInt(difficulty)
	return g
}

// StartNode builds (or, over non-empty databases, restarts) the three cores.
// It must be called inside the synctest bubble of the run.
func StartNode(cfg NodeConfig) (*Node, error) {
	n := &Node{Cfg: cfg, Logger: quietLogger()}
	genesis := MakeGenesis(cfg.Difficulty)
	slices := []common.Location{LocZone}
	for ctx := common.PRIME_CTX; ctx <= common.ZONE_CTX; ctx++ {
		db := cfg.OpenDB(ctx)
		n.DBs[ctx] = db
		loc := locOf(ctx)
		gcfg := *genesis
		ccopy := *genesis.Config
		ccopy.Location = loc
		gcfg.Config = &ccopy
		chainConfig, _, err := core.SetupGenesisBlockWithOverride(db, &gcfg, 0, nil, loc, 0, n.Logger)
		if err != nil {
			return nil, fmt.Errorf("genesis ctx %d: %w", ctx, err)
		}
		cc := params.ChainConfig{
			ChainID:         chainConfig.ChainID,
			ConsensusEngine: "blake3",
			Blake3Pow:       chainConfig.Blake3Pow,
			Progpow:         chainConfig.Progpow,
			Location:        loc,
		}
		cc.IndexAddressUtxos = cfg.IndexAddressUtxos
		cc.DefaultGenesisHash = gcfg.ToBlock(0).Hash()
		powConfig := params.PowConfig{
			PowMode:       params.ModeNormal,
			DurationLimit: params.DurationLimit,
			GasCeil:       params.GasCeil,
			MinDifficulty: big.NewInt(cfg.Difficulty),
			NodeLocation:  loc,
			GenAllocs:     cfg.GenAllocs,
		}
		eng := blake3pow.New(powConfig, nil, false, n.Logger)
		eng.SetThreads(-1)
		engines := []consensus.Engine{eng, eng} // slot 1 (Kawpow) is dereferenced unconditionally by BodyDb.WriteBlock when IndexAddressUtxos is on
		mcfg := &core.Config{
			QuaiCoinbase:          cfg.QuaiCoinbase,
			QiCoinbase:            cfg.QiCoinbase,
			CoinbaseLockup:        cfg.CoinbaseLockup,
			LockupContractAddress: cfg.LockupContract,
			MinerPreference:       cfg.MinerPreference,
			ExtraData:             []byte("verif-sim"),
			GasFloor:              params.GasCeil,
			GasCeil:               params.GasCeil,
			GasPrice:              big.NewInt(1),
			Recommit:              0,
			WorkShareThreshold:    0,
		}
		cacheCfg := &core.CacheConfig{
			TrieCleanLimit: cfg.TrieCleanLimit,
			TrieDirtyLimit: 16,
			TrieTimeLimit:  0,
			SnapshotLimit:  cfg.SnapshotLimit,
		}
		txcfg := cfg.TxPool
		var lookup uint64
		c, err := core.NewCore(db, mcfg, powConfig, &txcfg, &lookup, &cc, slices, 0, nil, engines, cacheCfg, vm.Config{}, &gcfg, n.Logger)
		if err != nil {
			if n.Cores[0] != nil { // release prime's start-up goroutine, which spins until it has a sub client
				n.Cores[0].SetSubInterface(p2b(&backend{n, 1}), LocRegion)
			}
			return nil, fmt.Errorf("NewCore ctx %d: %w", ctx, err)
		}
		n.coresMu.Lock()
		n.Cores[ctx] = c
		n.coresMu.Unlock()
	}
	p, r, z := &backend{n, 0}, &backend{n, 1}, &backend{n, 2}
	n.Cores[0].SetSubInterface(p2b(r), LocRegion)
	n.Cores[1].SetDomInterface(p2b(p))
	n.Cores[1].SetSubInterface(p2b(z), LocZone)
	n.Cores[2].SetDomInterface(p2b(r))
	return n, nil
}

func p2b(b *backend) core.CoreBackend { return b }

func (n *Node) Stop() {
	if n.stopped {
		return
	}
	n.stopped = true
	for _, c := range n.Cores {
		if c != nil {
			func() {
				// Slice.Stop dereferences the best pending header, which does not exist on a node restarted
				// from an early crash image; shutdown is outside every listed property, so only count it.
				defer func() {
					if r := recover(); r != nil {
						StopPanics++
					}
				}()
				c.Stop()
			}()
		}
	}
}

func (n *Node) Zone() *core.Core   { return n.Cores[2] }
func (n *Node) Region() *core.Core { return n.Cores[1] }
func (n *Node) Prime() *core.Core  { return n.Cores[0] }

// Heads returns the numbers of the three current headers.
func (n *Node) Heads() [3]uint64 {
	var h [3]uint64
	for i, c := range n.Cores {
		h[i] = c.CurrentHeader().NumberU64(i)
	}
	return h
}

// ------------------------------------------------------------------ mining

var errNoNonce = errors.New("no nonce found within the search budget")

// PendingWork fetches the node's pending header the way an external miner
// does (through the RPC codec), with the given coinbase.
func (n *Node) PendingWork(coinbase common.Address) (*types.WorkObject, error) {
	ph, err := n.Zone().GetPendingHeader(types.Progpow, coinbase)
	if err != nil {
		return nil, err
	}
	pb, err := ph.ProtoEncode(types.PEtxObject)
	if err != nil {
		return nil, err
	}
	out := &types.WorkObject{}
	if err := out.ProtoDecode(pb, LocZone, types.PEtxObject); err != nil {
		return nil, err
	}
	return out, nil
}

func powHash(seal common.Hash, mix common.Hash, nonce types.BlockNonce) common.Hash {
	var hData [common.HashLength + common.HashLength + types.NonceLength]byte
	copy(hData[:], mix.Bytes())
	copy(hData[common.HashLength:], seal.Bytes())
	copy(hData[common.HashLength+common.HashLength:], nonce[:])
	return common.Hash(blake3.Sum256(hData[:]))
}

// Seal searches nonces from start until the header's hash meets its own
// difficulty and classify(hash) accepts it. Deterministic in (header, start).
func Seal(wo *types.WorkObject, start uint64, maxTries int, accept func(*types.WorkObject) bool) error {
	h := wo.WorkObjectHeader()
	seal := h.SealHash()
	mix := h.MixHash()
	target := new(big.Int).Div(common.Big2e256, h.Difficulty())
	for i := 0; i < maxTries; i++ {
		nonce := types.EncodeNonce(start + uint64(i))
		ph := powHash(seal, mix, nonce)
		if new(big.Int).SetBytes(ph.Bytes()).Cmp(target) <= 0 {
			h.SetNonce(nonce)
			if h.Hash() != ph {
				panic("harness pow hash disagrees with header hash")
			}
			if accept == nil || accept(wo) {
				return nil
			}
		}
	}
	return errNoNonce
}

// SubmitMined hands a sealed header to the zone the way quai_receiveMinedHeader
// does, returning the zone's block view. Dominant views are broadcast by the
// backends themselves.
func (n *Node) SubmitMined(wo *types.WorkObject) (*types.WorkObject, error) {
	zb := &backend{n, common.ZONE_CTX}
	block, err := zb.c().ReceiveMinedHeader(wo)
	if err != nil {
		return nil, err
	}
	if n.Net != nil {
		n.Net.Broadcast(n, common.ZONE_CTX, block)
	}
	return block, nil
}

// UpdateHeads plays the hierarchical coordinator for one slice: regenerate the
// pending headers of all three contexts on the given heads and combine them.
func (n *Node) UpdateHeads(primeHead, regionHead, zoneHead *types.WorkObject) error {
	p, err := n.Prime().GeneratePendingHeader(primeHead, false)
	if err != nil {
		return fmt.Errorf("prime GeneratePendingHeader: %w", err)
	}
	r, err := n.Region().GeneratePendingHeader(regionHead, false)
	if err != nil {
		return fmt.Errorf("region GeneratePendingHeader: %w", err)
	}
	z, err := n.Zone().GeneratePendingHeader(zoneHead, false)
	if err != nil {
		return fmt.Errorf("zone GeneratePendingHeader: %w", err)
	}
	if p == nil || r == nil || z == nil {
		return errors.New("nil pending header")
	}
	n.Zone().MakeFullPendingHeader(p, r, z)
	return nil
}

// ------------------------------------------------------------------ db scans

// ScanPrefix returns the sorted key/value pairs under prefix.
func ScanPrefix(db ethdb.Iteratee, prefix []byte) (keys []string, vals [][]byte) {
	it := db.NewIterator(prefix, nil)
	defer it.Release()
	for it.Next() {
		keys = append(keys, string(it.Key()))
		vals = append(vals, append([]byte{}, it.Value()...))
	}
	return
}

func SortedKeys[M ~map[string]V, V any](m M) []string {
	ks := make([]string, 0, len(m))
	for k := range m {
		ks = append(ks, k)
	}
	sort.Strings(ks)
	return ks
}

var _ = rawdb.ReadHeadBlockHash
