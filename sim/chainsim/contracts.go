package chainsim

import (
	"encoding/binary"
	"math/big"

	"github.com/dominant-strategies/go-quai/common"
	"github.com/dominant-strategies/go-quai/core/types"
	"github.com/dominant-strategies/go-quai/core/vm"
	"github.com/dominant-strategies/go-quai/crypto"
	"github.com/dominant-strategies/go-quai/params"
)

// LockupPrecompile is the address of the zone's lockup contract.
func LockupPrecompile() common.Address { return vm.LockupContractAddresses[[2]byte{0, 0}] }

// forwarderRuntime is a contract that forwards its calldata to the lockup precompile (so that it is the
// "owner contract" of coinbase lockups); it reverts when the precompile refuses and otherwise logs twice and returns 1.
func forwarderRuntime() []byte {
	pre := LockupPrecompile().Bytes()
	code := []byte{
		0x36,       // CALLDATASIZE
		0x60, 0x00, // PUSH1 0   (offset)
		0x60, 0x00, // PUSH1 0   (destOffset)
		0x37,       // CALLDATACOPY
		0x60, 0x00, // retSize
		0x60, 0x00, // retOffset
		0x36,       // argsSize = CALLDATASIZE
		0x60, 0x00, // argsOffset
		0x60, 0x00, // value
		0x73, // PUSH20 precompile
	}
	code = append(code, pre...)
	code = append(code,
		0x5a, // GAS
		0xf1, // CALL
		0x80, // DUP1
	)
	// a refused call makes the whole transaction fail (status 0 on the receipt), as a careful owner contract would
	okPC := len(code) + 3 + 5
	code = append(code,
		0x60, byte(okPC), // PUSH1 ok
		0x57,       // JUMPI
		0x60, 0x00, // PUSH1 0
		0x60, 0x00, // PUSH1 0
		0xfd,       // REVERT
		0x5b,       // ok: JUMPDEST
		0x60, 0x00, // PUSH1 0
		0x52,       // MSTORE
		0x60, 0xa1, // topic
		0x60, 0x20, // size
		0x60, 0x00, // offset
		0xa1,       // LOG1   (two logs per call: receipts of a block then carry block-wide log indices)
		0x60, 0xa2, // topic
		0x60, 0x04, // size
		0x60, 0x00, // offset
		0xa1,       // LOG1
		0x60, 0x20, // PUSH1 32
		0x60, 0x00, // PUSH1 0
		0xf3, // RETURN
	)
	return code
}

// initCodeFor wraps runtime in init code that returns it; pad bytes after the code let the harness grind the address.
func initCodeFor(runtime []byte, pad []byte) []byte {
	// PUSH2 len; DUP1; PUSH1 off; PUSH1 0; CODECOPY; PUSH1 0; RETURN ; <runtime> ; <pad>
	n := len(runtime)
	init := []byte{0x61, byte(n >> 8), byte(n), 0x80, 0x60, 0x0c, 0x60, 0x00, 0x39, 0x60, 0x00, 0xf3}
	init = append(init, runtime...)
	return append(init, pad...)
}

// grindDeployment finds pad bytes such that the created contract address lies in zone 0-0's Quai ledger.
func grindDeployment(sender common.Address, nonce uint64, runtime []byte) (initCode []byte, addr common.Address) {
	for i := uint32(0); ; i++ {
		pad := make([]byte, 4)
		binary.BigEndian.PutUint32(pad, i)
		code := initCodeFor(runtime, pad)
		a := crypto.CreateAddress(sender, nonce, code, LocZone)
		if loc := a.Location(); loc != nil && loc.Equal(LocZone) && a.IsInQuaiLedgerScope() {
			if _, err := a.InternalAndQuaiAddress(); err == nil {
				return code, a
			}
		}
	}
}

// DeployTx builds a signed contract-creation transaction of the forwarder from account `from`.
func (w *World) DeployTx(from int, nonce uint64, gasPrice *big.Int) (*types.Transaction, common.Address, error) {
	code, addr := grindDeployment(quaiAccounts[from].Addr, nonce, forwarderRuntime())
	inner := &types.QuaiTx{
		ChainID: params.Blake3PowLocalChainConfig.ChainID, Nonce: nonce, GasPrice: gasPrice, Gas: 400000,
		To: nil, Value: new(big.Int), Data: code,
		AccessList: types.AccessList{{Address: addr}},
	}
	tx, err := types.SignNewTx(quaiAccounts[from].Key, w.signer(), inner)
	return tx, addr, err
}

// ClaimInput is the 53-byte tightly packed input of the precompile's ClaimCoinbaseLockup.
func ClaimInput(miner, to common.Address, lockupByte byte, epoch uint32, etxGas uint64) []byte {
	in := make([]byte, 0, 53)
	in = append(in, miner.Bytes()...)
	in = append(in, to.Bytes()...)
	in = append(in, lockupByte)
	var e [4]byte
	binary.BigEndian.PutUint32(e[:], epoch)
	in = append(in, e[:]...)
	var g [8]byte
	binary.BigEndian.PutUint64(g[:], etxGas)
	return append(in, g[:]...)
}

// ContractCallTx builds a signed call of `contract` with `data`; the lockup precompile is put on the access list.
func (w *World) ContractCallTx(from int, contract common.Address, data []byte, nonce uint64, gasPrice *big.Int, gas uint64) (*types.Transaction, error) {
	inner := &types.QuaiTx{
		ChainID: params.Blake3PowLocalChainConfig.ChainID, Nonce: nonce, GasPrice: gasPrice, Gas: gas,
		To: &contract, Value: new(big.Int), Data: data,
		AccessList: types.AccessList{{Address: LockupPrecompile()}, {Address: contract}},
	}
	return types.SignNewTx(quaiAccounts[from].Key, w.signer(), inner)
}
