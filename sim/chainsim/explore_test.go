package chainsim

import (
	"testing"

	"github.com/dominant-strategies/go-quai/core/rawdb"
	"verif/sim/simkit"
)

func TestExplore(t *testing.T) {
	restore := DefaultRegime().Apply()
	defer restore()
	inBubble(t, func() {
		w := NewWorld(nil, simkit.NewTrace())
		n, err := w.AddNode(DefaultNodeConfig("n0"))
		if err != nil {
			t.Fatal(err)
		}
		for ctx := 0; ctx < 3; ctx++ {
			t.Logf("ctx %d bestPh in db: %v", ctx, rawdb.ReadBestPendingHeader(n.DBs[ctx]) != nil)
		}
		r := &Runner{W: w, N: n, Head: w.Gen, Stats: map[string]int{}}
		r.Step(Op{OpMine, 2, 0, 1, 0})
		for ctx := 0; ctx < 3; ctx++ {
			t.Logf("after mine: ctx %d bestPh in db: %v", ctx, rawdb.ReadBestPendingHeader(n.DBs[ctx]) != nil)
		}
		n.Stop()
	})
}
