package chainsim

import (
	"testing"

	"verif/sim/simkit"
)

func TestExplore(t *testing.T) {
	tape := []Op{{OpDeploy, 0, 0, 0, 0}, {OpMine, 2, 0, 0, 0}, {OpMine, 2, 0, 1, 0}, {OpLockupMode, 1, 1, 0, 0}}
	for i := 0; i < 16; i++ {
		tape = append(tape, Op{OpMine, []int{0, 2, 1}[i%3], 0, i, 1})
	}
	tape = append(tape, Op{OpClaim, 0, 0, 1, 0}, Op{OpMine, 2, 0, 1, 1}, Op{OpMine, 0, 0, 2, 1}, Op{OpClaim, 0, 0, 1, 1}, Op{OpMine, 2, 0, 3, 1}, Op{OpMine, 0, 0, 3, 1}, Op{OpMine, 2, 0, 4, 1}, Op{OpMine, 0, 0, 5, 1}, Op{OpMine, 2, 0, 6, 1})
	res := runChainP(t, simkit.NewTrace(), DefaultNodeConfig("n0"), DefaultRegime(), 1, tape, func(r *Runner) Hooks {
		return Hooks{AfterHead: func(w *World, n *Node, bi *BlockInfo, reorg bool) {
			blk := n.Zone().GetBlockByHash(bi.Hash)
			locks, _ := scanLockups(n)
			hdr := blk.Header()
			st, _ := n.Zone().StateAt(hdr.EVMRoot(), hdr.EtxSetRoot(), hdr.QuaiStateSize())
			code := 0
			if len(r.Contracts) > 0 {
				ci, _ := r.Contracts[0].InternalAndQuaiAddress()
				code = len(st.GetCode(ci))
			}
			t.Logf("#%d order=%d txs=%d etxs=%d lockups=%d code=%d woData=%x bal4=%v", bi.Number, bi.Order, len(blk.Transactions()), len(blk.OutboundEtxs()), len(locks), code, blk.WorkObjectHeader().Data(), st.GetBalance(quaiAccounts[4].Int))
			for k, v := range locks {
				t.Logf("     lock %s bal=%v unlock=%d n=%d", k, v.Balance, v.Unlock, v.Elements)
			}
			for _, e := range blk.OutboundEtxs() {
				if e.EtxType() != 1 {
					t.Logf("     OUT etx type=%d val=%v", e.EtxType(), e.Value())
				}
			}
			for _, e := range blk.Transactions() {
				if e.Type() == 1 && e.EtxType() != 1 {
					t.Logf("     IN etx type=%d val=%v", e.EtxType(), e.Value())
				}
			}
		}}
	})
	t.Logf("%v", res.stats)
}
