package chainsim

import (
	"math/big"
	"testing"

	"github.com/dominant-strategies/go-quai/consensus/misc"
	"github.com/dominant-strategies/go-quai/core/rawdb"
	"github.com/dominant-strategies/go-quai/core/types"
	"verif/sim/simkit"
)

func TestExplore(t *testing.T) {
	tape := []Op{{OpQiBurst, 10, 0, 15, 0}, {OpMine, 2, 0, 0, 0}, {OpMine, 0, 0, 1, 0}, {OpMine, 2, 0, 2, 0}, {OpMine, 0, 0, 3, 0}, {OpMine, 2, 0, 4, 0}, {OpMine, 0, 0, 5, 0}, {OpMine, 2, 0, 6, 0}, {OpMine, 0, 0, 7, 0}, {OpMine, 2, 0, 8, 0}}
	runChainP(t, simkit.NewTrace(), DefaultNodeConfig("n0"), DefaultRegime(), 1, tape, func(r *Runner) Hooks {
		return Hooks{AfterHead: func(w *World, n *Node, bi *BlockInfo, reorg bool) {
			blk := n.Zone().GetBlockByHash(bi.Hash)
			for _, e := range blk.OutboundEtxs() {
				if types.IsConversionTx(e) {
					t.Logf("#%d OUT conv val=%v toQuai=%v", bi.Number, e.Value(), e.To().IsInQuaiLedgerScope())
				}
			}
			for _, d := range rawdb.ReadInboundEtxs(n.DBs[2], bi.Hash) {
				if d.EtxType() == types.ConversionType || d.EtxType() == types.ConversionRevertType {
					pb := n.Prime().GetBlockByHash(bi.Hash)
					t.Logf("#%d order=%d DELIVERED type=%d val=%v  | QiToQuai(1000)=%v QiToQuai(10000)=%v exch=%v mdiff=%v diff=%v kqd=%v cfa=%v", bi.Number, bi.Order, d.EtxType(), d.Value(),
						misc.QiToQuai(pb, pb.ExchangeRate(), pb.MinerDifficulty(), big.NewInt(1000)), misc.QiToQuai(pb, pb.ExchangeRate(), pb.MinerDifficulty(), big.NewInt(10000)), pb.ExchangeRate(), pb.MinerDifficulty(), pb.Difficulty(), pb.KQuaiDiscount(), pb.ConversionFlowAmount())
				}
			}
		}}
	})
}
