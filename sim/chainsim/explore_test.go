package chainsim

import (
	"testing"

	"verif/sim/simkit"
)

func TestExplore(t *testing.T) {
	restore := DefaultRegime().Apply()
	defer restore()
	inBubble(t, func() {
		w := NewWorld(nil, simkit.NewTrace())
		cfg := DefaultNodeConfig("n0")
		cfg.MinerPreference = 0.5
		n, err := w.AddNode(cfg)
		if err != nil {
			t.Fatal(err)
		}
		r := &Runner{W: w, N: n, Head: w.Gen, Stats: map[string]int{}}
		for _, op := range Prologue(1) {
			r.Step(op)
		}
		for _, op := range []Op{{OpTransfer, 0, 1, 2, 0}, {OpTransfer, 1, 1, 1, 0}, {OpQiSpend, 0, 0, 0, 1}, {OpConvert, 2, 1, 1, 0}, {OpMine, 2, 0, 0, 0}, {OpTransfer, 0, 1, 2, 0}, {OpTransfer, 1, 1, 1, 0}, {OpQiSpend, 3, 1, 0, 2}, {OpMine, 2, 0, 1, 0},{OpTransfer, 0, 1, 2, 0}, {OpTransfer, 1, 1, 1, 0}, {OpQiSpend, 5, 1, 0, 2}} {
			r.Step(op)
		}
		for i, m := range Mutations {
			out, err := w.Byzantine(n, r.Head, m, i, uint64(i)*1000)
			t.Logf("%-32s %s applied=%v appended=%v ACCEPTED=%v err=%q trace=%q harnessErr=%v", m.Name, m.Prop, out.Applied, out.Appended, out.Accepted, out.Err, out.TraceNote, err)
		}
		n.Stop()
	})
}
