package chainsim

import (
	"testing"

	"verif/sim/simkit"
)

func TestExplore(t *testing.T) {
	res := runChainP(t, simkit.NewTrace(), DefaultNodeConfig("n0"), DefaultRegime(), 1, []Op{{OpMine, 0, 0, 0, 0}, {OpMine, 2, 0, 1, 0}, {OpMine, 0, 0, 2, 0}, {OpMine, 2, 0, 3, 0}}, func(r *Runner) Hooks {
		return Hooks{End: func(w *World) {
			pos := map[etxKey]int{}
			p := 0
			for _, bi := range w.lineOf(r.Head) {
				blk := r.N.Zone().GetBlockByHash(bi.Hash)
				t.Logf("#%d order=%d", bi.Number, bi.Order)
				for _, tx := range blk.Transactions() {
					if tx.Type() == 1 {
						t.Logf("     IN  pos=%d type=%d origin=%x idx=%d val=%v", pos[etxKey{tx.OriginatingTxHash(), tx.ETXIndex()}], tx.EtxType(), tx.OriginatingTxHash().Bytes()[:4], tx.ETXIndex(), tx.Value())
					}
				}
				for _, e := range blk.OutboundEtxs() {
					pos[etxKey{e.OriginatingTxHash(), e.ETXIndex()}] = p
					t.Logf("     OUT pos=%d type=%d origin=%x idx=%d val=%v", p, e.EtxType(), e.OriginatingTxHash().Bytes()[:4], e.ETXIndex(), e.Value())
					p++
				}
			}
		}}
	})
	_ = res
}
