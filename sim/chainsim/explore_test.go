package chainsim

import (
	"testing"

	"github.com/dominant-strategies/go-quai/common"
	"github.com/dominant-strategies/go-quai/core/rawdb"
	"verif/sim/simkit"
)

func TestExplore(t *testing.T) {
	tape := []Op{}
	for i := 0; i < 3; i++ {
		tape = append(tape, Op{OpMine, 0, 0, i, 0})
	}
	for i := 0; i < 4; i++ {
		tape = append(tape, Op{OpConvert, i, i, 5, 0})
	}
	for i := 0; i < 14; i++ {
		tape = append(tape, Op{OpMine, i % 3, 0, i, 1})
	}
	tape = append(tape, Op{OpQiSpend, 0, 0, 0, 1}, Op{OpQiSpend, 1, 1, 0, 2}, Op{OpMine, 2, 0, 1, 1}, Op{OpMine, 2, 0, 2, 1}, Op{OpMine, 2, 0, 3, 1})
	cfg := DefaultNodeConfig("n0")
	res := runChain(t, simkit.NewTrace(), cfg, DefaultRegime(), tape, func(r *Runner) Hooks {
		return Hooks{AfterHead: func(w *World, n *Node, bi *BlockInfo, reorg bool) {
			blk := n.Zone().GetBlockByHash(bi.Hash)
			us := ScanUtxos(n.DBs[2])
			t.Logf("#%d order=%d txs=%d etxsOut=%d utxos=%d setsize=%d", bi.Number, bi.Order, len(blk.Transactions()), len(blk.OutboundEtxs()), len(us), rawdb.ReadUTXOSetSize(n.DBs[2], bi.Hash))
			for _, tx := range blk.Transactions() {
				if tx.Type() == 1 {
					t.Logf("     etx type=%d value=%v to=%x", tx.EtxType(), tx.Value(), tx.To().Bytes()[:3])
				} else {
					t.Logf("     tx type=%d", tx.Type())
				}
			}
			for i, u := range us {
				if i < 12 {
					t.Logf("     utxo %x:%d denom=%d lock=%v", u.Hash[:4], u.Index, u.Entry.Denomination, u.Entry.Lock)
				}
			}
		}}
	})
	t.Logf("%v", res.stats)
	_ = common.Big0
}
