package chainsim

import (
	"fmt"
	"math/big"
	"testing"

	"github.com/dominant-strategies/go-quai/common"
	"github.com/dominant-strategies/go-quai/consensus/misc"
	"github.com/dominant-strategies/go-quai/core/rawdb"
	"github.com/dominant-strategies/go-quai/core/types"
	"github.com/dominant-strategies/go-quai/params"

	"verif/sim/simkit"
)

// convRec is the harness's record of one conversion, keyed by (originating tx hash, index).
type convRec struct {
	orig      *types.Transaction // as emitted at the origin
	emittedAt uint64
	delivered *types.Transaction // as the prime chain delivered it (repriced or turned into a refund)
	primeHash common.Hash
}

func TestC20(t *testing.T) {
	chainPropertyOpt(t, "C20", false, []int{1, 1, 2, 2}, func(r *Runner, fail func(class, witness, detail string)) Hooks {
		rateTable(fail)
		bal6 := map[common.Hash]*big.Int{}
		bal7 := map[common.Hash]*big.Int{}
		return Hooks{AfterHead: func(w *World, n *Node, bi *BlockInfo, reorg bool) {
			blk := n.Zone().GetBlockByHash(bi.Hash)
			if blk == nil {
				return
			}
			hdr := blk.Header()
			st, err := n.Zone().StateAt(hdr.EVMRoot(), hdr.EtxSetRoot(), hdr.QuaiStateSize())
			if err != nil {
				return
			}
			bal6[bi.Hash] = st.GetBalance(quaiAccounts[6].Int)
			bal7[bi.Hash] = st.GetBalance(quaiAccounts[7].Int)
			if reorg {
				return
			}
			num := bi.Number
			period := params.ConversionLockPeriod
			// reconstruct the conversion history of this chain
			line := w.lineOf(bi.Hash)
			byNum := map[uint64]*BlockInfo{}
			convs := map[etxKey]*convRec{}
			rates := map[string]bool{}
			for _, b := range line {
				byNum[b.Number] = b
				cb := n.Zone().GetBlockByHash(b.Hash)
				if cb == nil {
					return
				}
				for _, e := range cb.OutboundEtxs() {
					if types.IsConversionTx(e) {
						convs[etxKey{e.OriginatingTxHash(), e.ETXIndex()}] = &convRec{orig: e, emittedAt: b.Number}
					}
				}
				if b.Order == common.PRIME_CTX {
					if pb := n.Prime().GetBlockByHash(b.Hash); pb != nil {
						rates[pb.ExchangeRate().String()] = true
					}
				}
				for _, d := range rawdb.ReadInboundEtxs(n.DBs[common.ZONE_CTX], b.Hash) {
					if c := convs[etxKey{d.OriginatingTxHash(), d.ETXIndex()}]; c != nil && c.delivered == nil {
						c.delivered, c.primeHash = d, b.Hash
					}
				}
			}
			if len(rates) > 1 {
				simkit.Global.Inc("probe.exchange_rate_moved")
			}
			// 0. amount bounds: the rate the protocol applies to the conversions confirmed by prime block P is the one recorded in
			// the header of P's child prime block; discounts and slippage only reduce, never below the 10 % floor
			var primes []*BlockInfo
			for _, b := range line {
				if b.Order == common.PRIME_CTX {
					primes = append(primes, b)
				}
			}
			nextPrime := map[common.Hash]common.Hash{}
			for i := 0; i+1 < len(primes); i++ {
				nextPrime[primes[i].Hash] = primes[i+1].Hash
			}
			for _, k := range sortedEtxKeys(convs) {
				c := convs[k]
				if c.delivered == nil || c.delivered.EtxType() != types.ConversionType {
					continue
				}
				nh, ok := nextPrime[c.primeHash]
				if !ok || bi.Hash != nh {
					continue // judged once, when the child prime block becomes head
				}
				pb, np := n.Prime().GetBlockByHash(c.primeHash), n.Prime().GetBlockByHash(nh)
				if pb == nil || np == nil {
					continue
				}
				V, Vp := c.orig.Value(), c.delivered.Value()
				toQi := c.orig.To().IsInQiLedgerScope()
				tenth := new(big.Int).Div(new(big.Int).Mul(V, big.NewInt(10)), big.NewInt(100))
				var implied, floor *big.Int
				qiR := misc.CalculateQiReward(pb.WorkObjectHeader(), pb.MinerDifficulty())
				quaiR := misc.CalculateQuaiReward(pb.WorkObjectHeader(), pb.MinerDifficulty(), np.ExchangeRate())
				ratio := func(x *big.Int) *big.Int { // the rate is the ratio of the two block rewards at that difficulty; rounded down
					if toQi {
						return new(big.Int).Div(new(big.Int).Mul(x, qiR), quaiR)
					}
					return new(big.Int).Div(new(big.Int).Mul(x, quaiR), qiR)
				}
				implied, floor = ratio(V), ratio(tenth)
				if Vp.Cmp(implied) > 0 {
					forkSide := "post-slip-change"
					if r.Regime.ConversionSlipChangeBlock > w.Blocks[c.primeHash].Number+1000 {
						forkSide = "pre-slip-change"
					}
					fail("conversion-outcome", fmt.Sprintf("credit-above-rate toQi=%v fork=%s", toQi, forkSide), fmt.Sprintf("conversion of %v confirmed by prime block #%d was credited %v; the rate applied there (%v) implies at most %v", V, w.Blocks[c.primeHash].Number, Vp, np.ExchangeRate(), implied))
					return
				}
				if new(big.Int).Add(Vp, big.NewInt(1)).Cmp(floor) < 0 {
					fail("conversion-outcome", fmt.Sprintf("credit-below-floor toQi=%v", toQi), fmt.Sprintf("conversion of %v confirmed by prime block #%d was credited %v, below the 10%% floor %v", V, w.Blocks[c.primeHash].Number, Vp, floor))
					return
				}
				simkit.Global.Inc("probe.conversion_amount_bounded")
			}
			// 1. what this block executes
			refund7 := new(big.Int)
			for _, tx := range blk.Transactions() {
				if tx.Type() != types.ExternalTxType {
					continue
				}
				c := convs[etxKey{tx.OriginatingTxHash(), tx.ETXIndex()}]
				if c == nil || c.delivered == nil {
					continue
				}
				V := c.orig.Value()
				toQi := c.orig.To().IsInQiLedgerScope()
				switch tx.EtxType() {
				case types.ConversionType:
					Vp := tx.Value()
					if toQi {
						total := new(big.Int)
						for _, u := range ScanUtxos(n.DBs[common.ZONE_CTX]) {
							if u.Hash != tx.Hash() {
								continue
							}
							total.Add(total, types.Denominations[u.Entry.Denomination])
							if u.Entry.Lock == nil || u.Entry.Lock.Uint64() != num+period {
								fail("conversion-outcome", "qi-credit-lock-height", fmt.Sprintf("block #%d: converted output %s is locked until %v, expected %d", num, u.Key(), u.Entry.Lock, num+period))
								return
							}
						}
						if total.Cmp(Vp) > 0 {
							fail("conversion-outcome", "qi-credit-exceeds-delivered-value", fmt.Sprintf("block #%d: conversion delivered as %v qits minted %v", num, Vp, total))
							return
						}
						simkit.Global.Inc("probe.quai_to_qi_credited")
					} else {
						simkit.Global.Inc("probe.qi_to_quai_executed")
					}
				case types.ConversionRevertType:
					if tx.Value().Cmp(V) != 0 {
						fail("conversion-outcome", fmt.Sprintf("refund-amount toQi=%v", toQi), fmt.Sprintf("block #%d refunds %v for a conversion of %v", num, tx.Value(), V))
						return
					}
					if toQi {
						if c.orig.ETXSender().Bytes20() == quaiAccounts[7].Addr.Bytes20() {
							refund7.Add(refund7, V)
						}
						simkit.Global.Inc("probe.quai_to_qi_refunded")
					} else {
						total := new(big.Int)
						for _, u := range ScanUtxos(n.DBs[common.ZONE_CTX]) {
							if u.Hash != tx.Hash() {
								continue
							}
							total.Add(total, types.Denominations[u.Entry.Denomination])
							if u.Entry.Lock == nil || u.Entry.Lock.Uint64() != num+period {
								fail("conversion-outcome", "qi-refund-lock-height", fmt.Sprintf("block #%d: refunded output %s locked until %v, expected %d", num, u.Key(), u.Entry.Lock, num+period))
								return
							}
						}
						if total.Cmp(V) > 0 {
							fail("conversion-outcome", "qi-refund-exceeds-original", fmt.Sprintf("block #%d: refund of %v qits minted %v", num, V, total))
							return
						}
						simkit.Global.Inc("probe.qi_to_quai_refunded")
					}
				}
			}
			// 2. the Qi->Quai recipient (receives nothing else) is credited exactly at execution height + lock period
			if prev, ok := bal6[bi.Parent]; ok && num > period {
				expect := new(big.Int)
				if src := byNum[num-period]; src != nil {
					if sb := n.Zone().GetBlockByHash(src.Hash); sb != nil {
						for _, tx := range sb.Transactions() {
							if tx.Type() == types.ExternalTxType && tx.EtxType() == types.ConversionType && tx.To().Bytes20() == quaiAccounts[6].Addr.Bytes20() {
								expect.Add(expect, tx.Value())
							}
						}
					}
				}
				got := new(big.Int).Sub(bal6[bi.Hash], prev)
				parentBlk := n.Zone().GetBlockByHash(bi.Parent)
				if expect.Sign() > 0 && prev.Sign() == 0 && parentBlk != nil {
					if ps, err := n.Zone().StateAt(parentBlk.Header().EVMRoot(), parentBlk.Header().EtxSetRoot(), parentBlk.QuaiStateSize()); err == nil && !ps.Exist(quaiAccounts[6].Int) {
						fee := new(big.Int).Mul(new(big.Int).SetUint64(params.CallNewAccountGas(parentBlk.QuaiStateSize())), big.NewInt(params.InitialBaseFee))
						// the fee is taken per credited conversion while the account does not exist yet: allow either reading
						if new(big.Int).Sub(expect, got).CmpAbs(new(big.Int).Mul(fee, big.NewInt(8))) <= 0 {
							got = expect
						}
					}
				}
				if got.Cmp(expect) != 0 {
					fail("conversion-outcome", "quai-credit-height-or-amount", fmt.Sprintf("block #%d: the Qi->Quai recipient's balance changed by %v; conversions executed at #%d and unlocking now sum to %v", num, got, num-period, expect))
					return
				}
				if expect.Sign() > 0 {
					simkit.Global.Inc("probe.qi_to_quai_credited")
				}
			}
			// 3. the dedicated Quai->Qi converter: debited exactly value + gas for each conversion it got included, refunded exactly on revert
			if prev, ok := bal7[bi.Parent]; ok {
				expect := new(big.Int).Set(refund7)
				receipts := n.Zone().GetReceiptsByHash(bi.Hash)
				if len(receipts) != len(blk.Transactions()) {
					return
				}
				signer := w.signer()
				for i, tx := range blk.Transactions() {
					if tx.Type() != types.QuaiTxType {
						continue
					}
					from, err := types.Sender(signer, tx)
					if err != nil || from.Bytes20() != quaiAccounts[7].Addr.Bytes20() {
						continue
					}
					expect.Sub(expect, new(big.Int).Mul(new(big.Int).SetUint64(receipts[i].GasUsed), tx.GasPrice()))
					emitted := false
					for _, e := range blk.OutboundEtxs() {
						if e.OriginatingTxHash() == tx.Hash() && types.IsConversionTx(e) {
							emitted = true
							if e.Value().Cmp(tx.Value()) != 0 {
								fail("conversion-outcome", "emitted-value-differs", fmt.Sprintf("block #%d: conversion tx of %v emitted an ETX of %v", num, tx.Value(), e.Value()))
								return
							}
						}
					}
					if emitted {
						expect.Sub(expect, tx.Value())
						simkit.Global.Inc("probe.converter_debited")
					}
				}
				got := new(big.Int).Sub(bal7[bi.Hash], prev)
				if got.Cmp(expect) != 0 {
					fail("conversion-outcome", "origin-debit-or-refund", fmt.Sprintf("block #%d: the converter account's balance changed by %v; its conversions, gas and refunds in this block sum to %v (refunds %v)", num, got, expect, refund7))
					return
				}
			}
			simkit.Global.Inc("conversion_blocks_checked")
		}}
	})
}

// rateTable checks the pure rate function on both sides of every conversion-related fork height F (a fork "at block F"
// is in force from F on): with everything else equal the rate at F equals the rate at F+1 and the rate at F-1 equals the
// rate at F-2, in both directions, and converting back and forth at that fixed rate never yields more than was put in.
func rateTable(fail func(class, witness, detail string)) {
	forks := []struct {
		name string
		at   uint64
	}{{"kawpow", params.KawPowForkBlock}, {"kquai-reset", params.KQuaiResetAfterKawPowForkBlock}, {"sha-equivalent-difficulty", params.ShaEquivalentDifficultyForkBlock}}
	mk := func(ptn uint64, variant int) *types.WorkObject {
		wo := types.EmptyWorkObject(common.ZONE_CTX)
		h := wo.WorkObjectHeader()
		h.SetPrimeTerminusNumber(new(big.Int).SetUint64(ptn))
		h.SetNumber(new(big.Int).SetUint64(3_000_000))
		two32 := new(big.Int).Lsh(common.Big1, 32)
		sc := new(big.Int).Mul(two32, big.NewInt(int64(1+variant%3)))
		sh := new(big.Int).Mul(two32, big.NewInt(int64(1+variant/3%3)))
		shaDiff := new(big.Int).Mul(params.InitialShaDiffMultiple, new(big.Int).Mul(params.MinDifficultyForShaEquivalentDifficulty, big.NewInt(int64(3+variant))))
		h.SetScryptDiffAndCount(types.NewPowShareDiffAndCount(big.NewInt(1_000_000), sc, big.NewInt(0)))
		h.SetShaDiffAndCount(types.NewPowShareDiffAndCount(shaDiff, sh, big.NewInt(0)))
		return wo
	}
	rate := new(big.Int).Set(params.ExchangeRate)
	qi := big.NewInt(1_000_000_000)                                   // 1e6 Qi in qits
	quai := new(big.Int).Mul(big.NewInt(1_000_000), big.NewInt(1e18)) // 1e6 Quai
	for _, f := range forks {
		for variant := 0; variant < 9; variant++ {
			diff := new(big.Int).Mul(big.NewInt(1_000_000_000_000), big.NewInt(int64(1+variant)))
			q := func(ptn uint64) (*big.Int, *big.Int) {
				wo := mk(ptn, variant)
				return misc.QiToQuai(wo, rate, diff, qi), misc.QuaiToQi(wo, rate, diff, quai)
			}
			for _, pair := range [][2]uint64{{f.at, f.at + 1}, {f.at - 1, f.at - 2}} {
				a1, b1 := q(pair[0])
				a2, b2 := q(pair[1])
				simkit.Global.Inc("rate_fork_sides_compared")
				if a1.Cmp(a2) != 0 || b1.Cmp(b2) != 0 {
					side := "at-and-after"
					if pair[0] < f.at {
						side = "before"
					}
					fail("rate-fork-sides", fmt.Sprintf("fork=%s side=%s", f.name, side), fmt.Sprintf("with identical difficulty, rate and share counts the conversion of %v qits gives %v at prime terminus %d and %v at %d; %v its give %v and %v", qi, a1, pair[0], a2, pair[1], quai, b1, b2))
					return
				}
			}
			// the credited amount never exceeds amount x (reward of the target ledger) / (reward of the origin ledger), rounded
			// down - in particular not for amounts just below a whole unit of the target ledger
			for _, ptn := range []uint64{f.at - 1, f.at} {
				wo := mk(ptn, variant)
				for _, r8 := range []*big.Int{rate, big.NewInt(1_000_000), big.NewInt(3)} { // mainnet-scale and low its-per-qit ratios
					qiR, quaiR := misc.CalculateQiReward(wo.WorkObjectHeader(), diff), misc.CalculateQuaiReward(wo.WorkObjectHeader(), diff, r8)
					for _, m := range []int64{1, 7, 1000, 1_000_000} {
						// the largest Quai amount worth strictly less than m qits
						x := new(big.Int).Mul(big.NewInt(m), quaiR)
						x.Add(x, new(big.Int).Sub(qiR, common.Big1)).Div(x, qiR).Sub(x, common.Big1)
						if x.Sign() <= 0 {
							continue
						}
						bound := new(big.Int).Div(new(big.Int).Mul(x, qiR), quaiR)
						got := misc.QuaiToQi(wo, r8, diff, x)
						simkit.Global.Inc("rate_rounding_cases")
						if got.Cmp(bound) > 0 {
							fail("rate-rounding", "direction=quai-to-qi", fmt.Sprintf("%v its convert to %v qits; at %v qits per %v its (block reward ratio at prime terminus %d) they are worth %v", x, got, qiR, quaiR, ptn, bound))
							return
						}
						q := new(big.Int).Mul(big.NewInt(m), qiR)
						q.Add(q, new(big.Int).Sub(quaiR, common.Big1)).Div(q, quaiR).Sub(q, common.Big1)
						if q.Sign() <= 0 {
							continue
						}
						bound = new(big.Int).Div(new(big.Int).Mul(q, quaiR), qiR)
						if got := misc.QiToQuai(wo, r8, diff, q); got.Cmp(bound) > 0 {
							fail("rate-rounding", "direction=qi-to-quai", fmt.Sprintf("%v qits convert to %v its; at %v its per %v qits they are worth %v", q, got, quaiR, qiR, bound))
							return
						}
					}
				}
			}
			for _, ptn := range []uint64{f.at - 1, f.at, f.at + 1} {
				wo := mk(ptn, variant)
				back := misc.QuaiToQi(wo, rate, diff, misc.QiToQuai(wo, rate, diff, qi))
				back2 := misc.QiToQuai(wo, rate, diff, misc.QuaiToQi(wo, rate, diff, quai))
				if back.Cmp(qi) > 0 || back2.Cmp(quai) > 0 {
					fail("round-trip", fmt.Sprintf("fork=%s", f.name), fmt.Sprintf("at prime terminus %d: %v qits -> quai -> %v qits; %v its -> qi -> %v its", ptn, qi, back, quai, back2))
					return
				}
			}
		}
	}
}
