package chainsim

import (
	"fmt"
	"testing"
	"testing/synctest"

	"github.com/dominant-strategies/go-quai/common"
	"pgregory.net/rapid"

	"verif/sim/simkit"
)

// S5-net: a second honest node B follows node A over a simulated, faulty network. Every block A mines (canonical or
// not) is sent to B as the views A built for it (zone, and region / prime when coincident); the network scheduler - a
// second tape - decides for every message when it arrives: in order, out of order (children before parents, dominant
// views before the zone view), twice, never (lost until the heal), or not at all while B is partitioned. B's periodic
// append-queue retry is a scheduled step too. B's coordinator follows A's head as far as B has the blocks.
//
// When A's tape ends the faults stop: the partition heals, everything B lacks is re-sent in the worst order (newest
// first), and B must within a bounded number of retry rounds hold A's canonical line, agree with A on the chain state
// under A's head, and show the same ETX history.

type NetOp struct{ Kind, A int }

const (
	netDeliverOldest = iota
	netDeliverPick
	netDeliverNewest
	netDuplicate
	netDrop
	netPartition
	netTick
	numNetKinds
)

var netKindNames = []string{"deliver-oldest", "deliver-pick", "deliver-newest", "duplicate", "drop", "partition-toggle", "queue-tick"}
var netKindTable = []int{netDeliverOldest, netDeliverOldest, netDeliverOldest, netDeliverPick, netDeliverPick, netDeliverNewest, netDeliverNewest, netDuplicate, netDuplicate, netDrop, netPartition, netTick, netTick}

var NetOpGen = rapid.Custom(func(t *rapid.T) NetOp {
	return NetOp{Kind: netKindTable[rapid.IntRange(0, len(netKindTable)-1).Draw(t, "nkind")], A: rapid.IntRange(0, 31).Draw(t, "na")}
})

type netMsgB struct {
	bi  *BlockInfo
	ctx int
}

type follower struct {
	w           *World
	a, b        *Node
	fail        func(class, witness, detail string)
	inflight    []netMsgB
	lost        []netMsgB
	delivered   []netMsgB
	partitioned bool
	seenTips    int
	ops         []NetOp
	next        int
	perOp       int
	dead        bool
}

func (f *follower) deliver(m netMsgB, how string) {
	v := m.bi.Views[m.ctx]
	if v == nil || f.dead {
		return
	}
	cp, err := roundTripBlock(v, locOf(m.ctx))
	if err != nil {
		return
	}
	if len(how) > 6 && how[:6] == "fault." {
		simkit.Global.Inc("fault.net." + how[6:])
	} else {
		simkit.Global.Inc("net." + how)
	}
	f.w.Tr.Event("net %s #%d ctx=%d %x", how, m.bi.Number, m.ctx, m.bi.Hash[:4])
	if perr := guarded(func() error { f.b.Cores[m.ctx].WriteBlock(cp); synctest.Wait(); return nil }); perr != nil {
		f.dead = true
		f.fail("follower-panic", "on="+how, fmt.Sprintf("node B panicked when the %s view of honest block #%d %x arrived (%s): %v", []string{"prime", "region", "zone"}[m.ctx], m.bi.Number, m.bi.Hash[:6], how, perr))
	}
}

// follow moves B's head to the highest block of A's current line that B has appended.
func (f *follower) follow(head common.Hash) {
	if f.dead {
		return
	}
	line := f.w.lineOf(head)
	for i := len(line) - 1; i >= 0; i-- {
		if !f.b.Appended(line[i].Hash) {
			continue
		}
		if f.b.Zone().CurrentHeader().Hash() == line[i].Hash {
			return
		}
		// the dominant views of the line up to here must be there too
		if err := f.w.SetHead(f.b, line[i].Hash); err == nil {
			f.w.Tr.Event("net B head -> #%d %x", line[i].Number, line[i].Hash[:4])
			simkit.Global.Inc("net.follower_head_moves")
		}
		return
	}
}

func (f *follower) enqueueNew() {
	for ; f.seenTips < len(f.w.Tips); f.seenTips++ {
		bi := f.w.Blocks[f.w.Tips[f.seenTips]]
		for ctx := common.ZONE_CTX; ctx >= bi.Order; ctx-- {
			m := netMsgB{bi, ctx}
			if f.partitioned {
				f.lost = append(f.lost, m)
				simkit.Global.Inc("fault.net.lost-in-partition")
			} else {
				f.inflight = append(f.inflight, m)
			}
		}
	}
}

func (f *follower) step(head common.Hash) {
	if len(f.ops) == 0 || f.dead {
		return
	}
	op := f.ops[f.next%len(f.ops)]
	f.next++
	take := func(i int) netMsgB {
		m := f.inflight[i]
		f.inflight = append(f.inflight[:i:i], f.inflight[i+1:]...)
		return m
	}
	switch op.Kind {
	case netDeliverOldest, netDeliverPick, netDeliverNewest:
		if len(f.inflight) == 0 {
			return
		}
		i := 0
		how := "deliver-in-order"
		if op.Kind == netDeliverPick {
			i = op.A % len(f.inflight)
			if i != 0 {
				how = "fault.deliver-reordered"
			}
		} else if op.Kind == netDeliverNewest {
			i = len(f.inflight) - 1
			if i != 0 {
				how = "fault.deliver-reordered"
			}
		}
		m := take(i)
		f.deliver(m, how)
		f.delivered = append(f.delivered, m)
	case netDuplicate:
		if len(f.delivered) == 0 {
			return
		}
		f.deliver(f.delivered[op.A%len(f.delivered)], "fault.deliver-duplicate")
	case netDrop:
		if len(f.inflight) == 0 {
			return
		}
		f.lost = append(f.lost, take(op.A%len(f.inflight)))
		simkit.Global.Inc("fault.net.dropped")
	case netPartition:
		f.partitioned = !f.partitioned
		if f.partitioned {
			simkit.Global.Inc("fault.net.partition")
			f.lost = append(f.lost, f.inflight...)
			f.inflight = nil
		} else {
			simkit.Global.Inc("fault.net.heal")
		}
		f.w.Tr.Event("net partitioned=%v", f.partitioned)
	case netTick:
		if perr := guarded(func() error { fireAppendQueues(f.b, 1); return nil }); perr != nil {
			f.dead = true
			f.fail("follower-panic", "on=queue-tick", fmt.Sprintf("node B panicked in its append-queue retry: %v", perr))
		}
		simkit.Global.Inc("net.queue-tick")
	}
	f.follow(head)
}

// heal stops the faults and checks convergence. want selects the oracles: "state", "etx", "accept".
func (f *follower) heal(head common.Hash, want map[string]bool) {
	if f.dead || head == f.w.Gen {
		return
	}
	f.partitioned = false
	f.enqueueNew()
	line := f.w.lineOf(head)
	const maxRounds = 4
	missing := func() []*BlockInfo {
		var out []*BlockInfo
		for _, b := range line {
			if !f.b.Appended(b.Hash) {
				out = append(out, b)
			}
		}
		return out
	}
	for round := 0; round < maxRounds && len(missing()) > 0 && !f.dead; round++ {
		// whatever B still lacks of the canonical line is sent again, newest block first, dominant views first
		ms := missing()
		for i := len(ms) - 1; i >= 0; i-- {
			for ctx := ms[i].Order; ctx <= common.ZONE_CTX; ctx++ {
				f.deliver(netMsgB{ms[i], ctx}, "heal-resend")
			}
		}
		for t := 0; t < len(ms)+16 && !f.dead; t++ { // a dominant chain re-asks its subordinate for pending ETXs only after 10 failed retries
			if perr := guarded(func() error { fireAppendQueues(f.b, 1); return nil }); perr != nil {
				f.dead = true
				f.fail("follower-panic", "on=queue-tick", fmt.Sprintf("node B panicked in its append-queue retry: %v", perr))
				return
			}
			f.follow(head)
			if len(missing()) == 0 {
				break
			}
		}
		simkit.Global.Inc("net.heal_rounds")
	}
	if f.dead {
		return
	}
	if ms := missing(); len(ms) > 0 {
		f.fail("follower-converges", "canonical-block-never-appended", fmt.Sprintf("after the faults stopped and %d re-send rounds node B still has not appended %d of the %d blocks of A's canonical line (first: #%d %x, order %d)", maxRounds, len(ms), len(line), ms[0].Number, ms[0].Hash[:6], ms[0].Order))
		return
	}
	simkit.Global.Inc("probe.net.followers_caught_up")
	if err := f.w.SetHead(f.b, head); err != nil {
		f.fail("follower-converges", "cannot-take-canonical-head", fmt.Sprintf("node B has every block of A's line but cannot make #%d %x its head: %v", f.w.Blocks[head].Number, head[:6], err))
		return
	}
	if want["state"] {
		up := f.w.maxNumber()
		ia, ib := ChainStateImage(f.a, up), ChainStateImage(f.b, up)
		if d := DiffImages(ia, ib); d != "[]" {
			cause := knownIndexDuplicates(f.w, f.a, ia, ib)
			if cause == "" {
				cause = knownIndexDuplicates(f.w, f.b, ib, ia)
			}
			f.fail("replicas-agree", "differs="+classifyDiff(ia, ib)+cause, fmt.Sprintf("A and B are on the same head #%d %x but their chain state differs (left=A, right=B): %s", f.w.Blocks[head].Number, head[:6], d))
			return
		}
		simkit.Global.Inc("net.replica_images_compared")
	}
	if want["etx"] {
		checkEtxHistory(f.w, f.b, head, func(class, witness, detail string) { f.fail(class, "at=follower "+witness, detail) })
	}
}

func netProperty(t *testing.T, prop string, want map[string]bool) {
	rapid.Check(t, func(rt *rapid.T) {
		defer simkit.EndOnKnown()
		c := drawCase(rt)
		nops := rapid.SliceOfN(NetOpGen, 8, 60).Draw(rt, "net")
		perOp := rapid.IntRange(1, 4).Draw(rt, "netStepsPerOp")
		tr := simkit.NewTrace()
		var v *violation
		res := runChainP(t, tr, c.Cfg, c.Regime, c.Prologue, c.Tape, func(r *Runner) Hooks {
			r.Regime = c.Regime
			fail := func(class, witness, detail string) {
				if v == nil {
					v = &violation{class, witness, detail}
				}
				r.ended = true
			}
			cfgB := c.Cfg
			cfgB.Name = "B"
			cfgB.OpenDB = MemOpener()
			cfgB.CloseDB = nil
			b, err := r.W.AddNode(cfgB)
			if err != nil {
				panic("harness: cannot start follower: " + err.Error())
			}
			b.Net = nil // B's own re-broadcasts go nowhere
			f := &follower{w: r.W, a: r.N, b: b, fail: fail, ops: nops, perOp: perOp}
			// the prologue reaches B faithfully
			for _, bi := range r.W.lineOf(r.Head) {
				if err := r.W.Deliver(b, bi); err != nil {
					panic("harness: follower refuses the prologue: " + err.Error())
				}
				if err := r.W.SetHead(b, bi.Hash); err != nil {
					panic("harness: follower cannot follow the prologue: " + err.Error())
				}
			}
			r.W.outbox = nil
			f.seenTips = len(r.W.Tips)
			return Hooks{
				AfterHead: func(w *World, n *Node, bi *BlockInfo, reorg bool) {
					f.enqueueNew()
					for i := 0; i < f.perOp; i++ {
						f.step(r.Head)
					}
				},
				End: func(w *World) { f.heal(r.Head, want) },
			}
		})
		recordRun(res, c)
		NodeLog.Reset()
		if v == nil && res.fatal != "" {
			v = &violation{"node-stops-on-honest-input", "stage=" + res.fatalStage, "node A stopped itself (logger.Fatal) or panicked while processing honest input: " + res.fatal}
		}
		if v != nil {
			if simkit.Violation(rt, tr, prop, v.class, v.witness, fmt.Sprintf("%s\nprologue=%d tape=%v net=%v x%d", v.detail, c.Prologue, renderTape(c.Tape), renderNet(nops), perOp)) {
				panic(simkit.KnownReached{})
			}
		}
	})
}

func renderNet(ops []NetOp) []string {
	out := make([]string, 0, len(ops))
	for _, o := range ops {
		out = append(out, fmt.Sprintf("%s(%d)", netKindNames[o.Kind], o.A))
	}
	return out
}

// TestC10Net: whatever order, multiplicity and loss the blocks of all branches reach a second node in, once it is on the
// winning head its chain state is the first node's.
func TestC10Net(t *testing.T) {
	netProperty(t, "C10", map[string]bool{"state": true})
}

// TestC06Net: a block one honest node built and executed is executed to the same commitments by another honest node,
// whatever the arrival schedule (otherwise the follower never accepts the canonical line).
func TestC06Net(t *testing.T) {
	netProperty(t, "C06", map[string]bool{"accept": true})
}

// TestC04Net: the follower, fed duplicated / reordered / re-sent dominant and zone views, shows the same exactly-once, in-order ETX history.
func TestC04Net(t *testing.T) {
	netProperty(t, "C04", map[string]bool{"etx": true})
}
