package chainsim

import (
	"crypto/ecdsa"
	"crypto/sha256"
	"encoding/binary"
	"fmt"
	"math/big"
	"sort"

	"github.com/btcsuite/btcd/btcec/v2"
	"github.com/btcsuite/btcd/btcec/v2/schnorr"
	"github.com/btcsuite/btcd/btcec/v2/schnorr/musig2"
	"github.com/dominant-strategies/go-quai/common"
	"github.com/dominant-strategies/go-quai/core/rawdb"
	"github.com/dominant-strategies/go-quai/core/types"
	"github.com/dominant-strategies/go-quai/crypto"
	"github.com/dominant-strategies/go-quai/ethdb"
	"github.com/dominant-strategies/go-quai/params"
)

type ecdsaKey = ecdsa.PrivateKey

// detReader is a deterministic byte stream (SHA-256 in counter mode) used
// wherever a library insists on an io.Reader for nonces.
type detReader struct {
	seed [32]byte
	ctr  uint64
	buf  []byte
}

func newDetReader(label []byte) *detReader { return &detReader{seed: sha256.Sum256(label)} }
func (d *detReader) Read(p []byte) (int, error) {
	for i := range p {
		if len(d.buf) == 0 {
			var c [8]byte
			binary.BigEndian.PutUint64(c[:], d.ctr)
			d.ctr++
			h := sha256.Sum256(append(d.seed[:], c[:]...))
			d.buf = h[:]
		}
		p[i] = d.buf[0]
		d.buf = d.buf[1:]
	}
	return len(p), nil
}

// Utxo is one unspent Qi output as found in a node's database.
type Utxo struct {
	Hash  common.Hash
	Index uint16
	Entry *types.UtxoEntry
}

func (u Utxo) Key() string { return fmt.Sprintf("%x:%d", u.Hash, u.Index) }

// ScanUtxos lists every "ut" record of a zone database in key order.
func ScanUtxos(db ethdb.Database) []Utxo {
	var out []Utxo
	it := db.NewIterator(rawdb.UtxoPrefix, nil)
	defer it.Release()
	for it.Next() {
		k := it.Key()
		if len(k) != rawdb.UtxoKeyLength {
			continue
		}
		h, idx, err := rawdb.ReverseUtxoKey(k)
		if err != nil {
			continue
		}
		if e := rawdb.GetUTXO(db, h, idx); e != nil {
			out = append(out, Utxo{h, idx, e})
		}
	}
	return out
}

var qiKeyByAddr = map[common.AddressBytes]*ecdsa.PrivateKey{}

func registerQiKeys() {
	for _, a := range qiAccounts {
		qiKeyByAddr[a.Addr.Bytes20()] = a.Key
	}
}

func pubBytes(k *ecdsa.PrivateKey) []byte { return crypto.FromECDSAPub(&k.PublicKey) }

func btcKey(k *ecdsa.PrivateKey) *btcec.PrivateKey {
	priv, _ := btcec.PrivKeyFromBytes(crypto.FromECDSA(k))
	return priv
}

// SignQi signs tx's digest with the given keys: plain Schnorr for one key,
// MuSig2 over all keys (deterministic nonces) for several.
func SignQi(tx *types.Transaction, signer types.Signer, keys []*ecdsa.PrivateKey) (*schnorr.Signature, error) {
	digest := signer.Hash(tx)
	if len(keys) == 1 {
		return schnorr.Sign(btcKey(keys[0]), digest[:])
	}
	privs := make([]*btcec.PrivateKey, len(keys))
	pubs := make([]*btcec.PublicKey, len(keys))
	for i, k := range keys {
		privs[i] = btcKey(k)
		pubs[i] = privs[i].PubKey()
	}
	sessions := make([]*musig2.Session, len(keys))
	for i, p := range privs {
		ctx, err := musig2.NewContext(p, false, musig2.WithKnownSigners(pubs))
		if err != nil {
			return nil, err
		}
		nonces, err := musig2.GenNonces(musig2.WithCustomRand(newDetReader(append(digest[:], byte(i)))), musig2.WithPublicKey(p.PubKey()))
		if err != nil {
			return nil, err
		}
		s, err := ctx.NewSession(musig2.WithPreGeneratedNonce(nonces))
		if err != nil {
			return nil, err
		}
		sessions[i] = s
	}
	for i, s := range sessions {
		for j, o := range sessions {
			if i != j {
				if _, err := s.RegisterPubNonce(o.PublicNonce()); err != nil {
					return nil, err
				}
			}
		}
	}
	var msg [32]byte
	copy(msg[:], digest[:])
	for i, s := range sessions {
		ps, err := s.Sign(msg)
		if err != nil {
			return nil, err
		}
		if i != 0 {
			if _, err := sessions[0].CombineSig(ps); err != nil {
				return nil, err
			}
		}
	}
	return sessions[0].FinalSig(), nil
}

// BuildQiTx assembles and signs a Qi transaction spending ins (owners looked
// up among the harness keys unless keysOverride is given).
func BuildQiTx(ins []Utxo, outs []types.TxOut, data []byte, keysOverride []*ecdsa.PrivateKey) (*types.Transaction, error) {
	if len(qiKeyByAddr) == 0 {
		registerQiKeys()
	}
	signer := types.NewSigner(params.Blake3PowLocalChainConfig.ChainID, LocZone)
	var keys []*ecdsa.PrivateKey
	txIns := make(types.TxIns, len(ins))
	for i, u := range ins {
		var k *ecdsa.PrivateKey
		if keysOverride != nil {
			k = keysOverride[i%len(keysOverride)]
		} else {
			k = qiKeyByAddr[common.AddressBytes(u.Entry.Address)]
			if k == nil {
				return nil, fmt.Errorf("no key for utxo owner %x", u.Entry.Address)
			}
		}
		keys = append(keys, k)
		txIns[i] = types.TxIn{PreviousOutPoint: types.OutPoint{TxHash: u.Hash, Index: u.Index}, PubKey: pubBytes(k)}
	}
	inner := &types.QiTx{ChainID: params.Blake3PowLocalChainConfig.ChainID, TxIn: txIns, TxOut: outs, Data: data}
	tx := types.NewTx(inner)
	sig, err := SignQi(tx, signer, keys)
	if err != nil {
		return nil, err
	}
	inner.Signature = sig
	return types.NewTx(inner), nil
}

// splitDenominations greedily expresses amount as denominations (largest first), at most max outputs.
func splitDenominations(amount *big.Int, max int) []uint8 {
	var out []uint8
	rem := new(big.Int).Set(amount)
	for d := types.MaxDenomination; d >= 0 && len(out) < max; d-- {
		v := types.Denominations[uint8(d)]
		for rem.Cmp(v) >= 0 && len(out) < max {
			out = append(out, uint8(d))
			rem.Sub(rem, v)
		}
	}
	return out
}

func sortUtxos(us []Utxo) {
	sort.Slice(us, func(i, j int) bool { return us[i].Key() < us[j].Key() })
}
