package chainsim

import (
	"errors"
	"sync"

	"github.com/dominant-strategies/go-quai/common"
	"github.com/dominant-strategies/go-quai/core/rawdb"
	"github.com/dominant-strategies/go-quai/ethdb"
	"github.com/dominant-strategies/go-quai/ethdb/memorydb"
	"github.com/dominant-strategies/go-quai/log"
)

// SimDisk wraps a real storage engine (DESIGN §2.6). It reports the node's
// location (as the leveldb/pebble handles opened by a real node do), records
// the write-op log — every direct Put/Delete and every Batch.Write as one
// atomic group — and can fail batch commits on demand.
type SimDisk struct {
	ethdb.Database
	loc common.Location

	mu  sync.Mutex
	ID  int
	G   *GlobalLog // shared by the disks of one node: global order of durable mutations
	Rec bool       // record into G
	// FailBatchAt: if >0, the n-th batch commit from now returns an error with nothing applied.
	FailBatchAt int
	Failed      int
}

type WriteOp struct {
	Del bool
	K   []byte
	V   []byte
}

// WriteGroup is one atomic durable mutation: a direct put/delete (one op) or a batch commit.
type WriteGroup struct {
	Batch bool
	Ops   []WriteOp
}

var ErrInjectedDisk = errors.New("simdisk: injected I/O error on batch commit")

func NewSimDisk(inner ethdb.Database, loc common.Location) *SimDisk {
	return &SimDisk{Database: inner, loc: loc}
}

func NewMemSimDisk(loc common.Location, logger *log.Logger) *SimDisk {
	return NewSimDisk(rawdb.NewDatabase(memorydb.New(logger)), loc)
}

func (d *SimDisk) Location() common.Location { return d.loc }

// GlobalLog is the ordered write-op log of all disks of one simulated process.
type GlobalLog struct {
	mu      sync.Mutex
	Entries []LogEntry
}
type LogEntry struct {
	Disk int
	WriteGroup
}

func (d *SimDisk) record(g WriteGroup) {
	if !d.Rec || d.G == nil {
		return
	}
	d.G.mu.Lock()
	d.G.Entries = append(d.G.Entries, LogEntry{d.ID, g})
	d.G.mu.Unlock()
}

func (d *SimDisk) Put(k, v []byte) error {
	if err := d.Database.Put(k, v); err != nil {
		return err
	}
	d.record(WriteGroup{Ops: []WriteOp{{K: common.CopyBytes(k), V: common.CopyBytes(v)}}})
	return nil
}

func (d *SimDisk) Delete(k []byte) error {
	if err := d.Database.Delete(k); err != nil {
		return err
	}
	d.record(WriteGroup{Ops: []WriteOp{{Del: true, K: common.CopyBytes(k)}}})
	return nil
}

func (d *SimDisk) NewBatch() ethdb.Batch {
	return &simBatch{Batch: d.Database.NewBatch(), d: d}
}

type simBatch struct {
	ethdb.Batch
	d   *SimDisk
	ops []WriteOp
}

func (b *simBatch) Put(k, v []byte) error {
	if b.d.Rec {
		b.ops = append(b.ops, WriteOp{K: common.CopyBytes(k), V: common.CopyBytes(v)})
	}
	return b.Batch.Put(k, v)
}
func (b *simBatch) Delete(k []byte) error {
	if b.d.Rec {
		b.ops = append(b.ops, WriteOp{Del: true, K: common.CopyBytes(k)})
	}
	return b.Batch.Delete(k)
}
func (b *simBatch) Reset() {
	b.ops = nil
	b.Batch.Reset()
}
func (b *simBatch) Write() error {
	b.d.mu.Lock()
	if b.d.FailBatchAt > 0 {
		b.d.FailBatchAt--
		if b.d.FailBatchAt == 0 {
			b.d.Failed++
			b.d.mu.Unlock()
			return ErrInjectedDisk
		}
	}
	b.d.mu.Unlock()
	if err := b.Batch.Write(); err != nil {
		return err
	}
	if b.d.Rec && len(b.ops) > 0 {
		b.d.record(WriteGroup{Batch: true, Ops: append([]WriteOp(nil), b.ops...)})
	}
	return nil
}

// Replay must hand the *inner* ops to w (HookedBatch etc. rely on it).
func (b *simBatch) Replay(w ethdb.KeyValueWriter) error { return b.Batch.Replay(w) }

// ImageAfter materialises, in a fresh in-memory engine, disk id's base image plus its share of the
// first n entries of the global log: the durable state after a process crash at that instant.
func ImageAfter(base map[string][]byte, g []LogEntry, n int, id int, loc common.Location, logger *log.Logger) *SimDisk {
	d := NewMemSimDisk(loc, logger)
	for k, v := range base {
		d.Database.Put([]byte(k), v)
	}
	for i := 0; i < n && i < len(g); i++ {
		if g[i].Disk != id {
			continue
		}
		for _, op := range g[i].Ops {
			if op.Del {
				d.Database.Delete(op.K)
			} else {
				d.Database.Put(op.K, op.V)
			}
		}
	}
	return d
}

// Dump returns the full content of the disk.
func (d *SimDisk) Dump() map[string][]byte {
	out := map[string][]byte{}
	it := d.Database.NewIterator(nil, nil)
	defer it.Release()
	for it.Next() {
		out[string(it.Key())] = common.CopyBytes(it.Value())
	}
	return out
}
