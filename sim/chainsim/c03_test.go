package chainsim

import (
	"bytes"
	"fmt"
	"math/big"
	"testing"

	"github.com/dominant-strategies/go-quai/common"
	"github.com/dominant-strategies/go-quai/core"
	"github.com/dominant-strategies/go-quai/core/types"
	"github.com/dominant-strategies/go-quai/crypto"
	"github.com/dominant-strategies/go-quai/params"

	"verif/sim/simkit"
)

var secpN, _ = new(big.Int).SetString("fffffffffffffffffffffffffffffffebaaedce6af48a03bbfd25e8cd0364141", 16)

type quaiRewrite struct {
	name  string
	apply func(q *types.QuaiTx)
}

var quaiFieldRewrites = []quaiRewrite{
	{"nonce", func(q *types.QuaiTx) { q.Nonce++ }},
	{"gas", func(q *types.QuaiTx) { q.Gas++ }},
	{"gas-price", func(q *types.QuaiTx) { q.GasPrice = new(big.Int).Add(q.GasPrice, big.NewInt(1)) }},
	{"value", func(q *types.QuaiTx) { q.Value = new(big.Int).Add(q.Value, big.NewInt(1)) }},
	{"to", func(q *types.QuaiTx) {
		if q.To == nil {
			a := quaiAccounts[2].Addr
			q.To = &a
			return
		}
		b := q.To.Bytes20()
		b[19] ^= 1
		a := common.Bytes20ToAddress(b, LocZone)
		q.To = &a
	}},
	{"to-nil", func(q *types.QuaiTx) {
		if q.To != nil {
			q.To = nil
		} else {
			a := quaiAccounts[1].Addr
			q.To = &a
		}
	}},
	{"data-append", func(q *types.QuaiTx) { q.Data = append(append([]byte{}, q.Data...), 0x00) }},
	{"data-flip", func(q *types.QuaiTx) {
		if len(q.Data) == 0 {
			q.Data = []byte{1}
			return
		}
		d := append([]byte{}, q.Data...)
		d[0] ^= 0x80
		q.Data = d
	}},
	{"access-list-add", func(q *types.QuaiTx) {
		q.AccessList = append(append(types.AccessList{}, q.AccessList...), types.AccessTuple{Address: quaiAccounts[3].Addr})
	}},
	{"access-list-key", func(q *types.QuaiTx) {
		if len(q.AccessList) == 0 {
			q.AccessList = types.AccessList{{Address: quaiAccounts[3].Addr, StorageKeys: []common.Hash{{1}}}}
			return
		}
		al := append(types.AccessList{}, q.AccessList...)
		al[0].StorageKeys = append(append([]common.Hash{}, al[0].StorageKeys...), common.Hash{7})
		q.AccessList = al
	}},
	{"chain-id", func(q *types.QuaiTx) { q.ChainID = new(big.Int).Add(q.ChainID, big.NewInt(1)) }},
}

var quaiSigRewrites = []quaiRewrite{
	{"r=0", func(q *types.QuaiTx) { q.R = new(big.Int) }},
	{"s=0", func(q *types.QuaiTx) { q.S = new(big.Int) }},
	{"r=N", func(q *types.QuaiTx) { q.R = new(big.Int).Set(secpN) }},
	{"s=N", func(q *types.QuaiTx) { q.S = new(big.Int).Set(secpN) }},
	{"r=N+1", func(q *types.QuaiTx) { q.R = new(big.Int).Add(secpN, big.NewInt(1)) }},
	{"high-s", func(q *types.QuaiTx) { q.S = new(big.Int).Sub(secpN, q.S); q.V = new(big.Int).Xor(q.V, big.NewInt(1)) }},
	{"v=2", func(q *types.QuaiTx) { q.V = big.NewInt(2) }},
	{"v-flip", func(q *types.QuaiTx) { q.V = new(big.Int).Xor(q.V, big.NewInt(1)) }},
	{"r+1", func(q *types.QuaiTx) { q.R = new(big.Int).Add(q.R, big.NewInt(1)) }},
	// recovery ids outside {0,1} that equal the genuine one modulo a byte, a word, 2^64
	{"v+256", func(q *types.QuaiTx) { q.V = new(big.Int).Add(q.V, big.NewInt(256)) }},
	{"v+512", func(q *types.QuaiTx) { q.V = new(big.Int).Add(q.V, big.NewInt(512)) }},
	{"v+2^32", func(q *types.QuaiTx) { q.V = new(big.Int).Add(q.V, new(big.Int).Lsh(big.NewInt(1), 32)) }},
	{"v+2^64", func(q *types.QuaiTx) { q.V = new(big.Int).Add(q.V, new(big.Int).Lsh(big.NewInt(1), 64)) }},
	{"v+27", func(q *types.QuaiTx) { q.V = new(big.Int).Add(q.V, big.NewInt(27)) }},
}

func copyQuai(tx *types.Transaction) *types.QuaiTx {
	in, ok := tx.Inner().(*types.QuaiTx)
	if !ok {
		return nil
	}
	cp := *in
	cp.GasPrice = new(big.Int).Set(in.GasPrice)
	cp.Value = new(big.Int).Set(in.Value)
	cp.ChainID = new(big.Int).Set(in.ChainID)
	cp.V, cp.R, cp.S = new(big.Int).Set(in.V), new(big.Int).Set(in.R), new(big.Int).Set(in.S)
	cp.Data = append([]byte{}, in.Data...)
	cp.AccessList = append(types.AccessList{}, in.AccessList...)
	return &cp
}

// checkQuaiAuthorisation: no rewrite of a signed transaction keeps its sender; signature edge values are refused;
// a sender cached for one chain id is never served for another; the pool does not book a rewrite to the original sender.
func checkQuaiAuthorisation(r *Runner, tx *types.Transaction, fail func(class, witness, detail string)) {
	signer := types.NewSigner(params.Blake3PowLocalChainConfig.ChainID, LocZone)
	orig, err := types.Sender(signer, tx)
	if err != nil {
		return
	}
	pool := r.N.Zone().Slice().TxPool()
	for _, rw := range append(append([]quaiRewrite{}, quaiFieldRewrites...), quaiSigRewrites...) {
		q := copyQuai(tx)
		if q == nil {
			return
		}
		rw.apply(q)
		forged := types.NewTx(q)
		s2 := types.Signer(signer)
		if rw.name == "chain-id" {
			s2 = types.NewSigner(q.ChainID, LocZone) // a node of that other chain
		}
		got, err := types.Sender(s2, forged)
		if err == nil && got.Equal(orig) {
			fail("sender-under-rewrite", "rewrite="+rw.name, fmt.Sprintf("transaction %x with [%s] changed and the signature kept still recovers the original sender %x", tx.Hash().Bytes()[:6], rw.name, orig.Bytes()))
			return
		}
		simkit.Global.Inc("rewrites_checked")
		simkit.Global.Inc("fault.rewrite." + rw.name)
		// the pool must not attribute the rewrite to the original sender either
		if rw.name != "chain-id" {
			before, _ := pool.ContentFrom(quaiInternal(orig))
			qb := len(before)
			_ = pool.AddRemote(forged)
			after, afterQ := pool.ContentFrom(quaiInternal(orig))
			for _, t2 := range append(after, afterQ...) {
				if t2.Hash() == forged.Hash() {
					fail("sender-under-rewrite", "pool rewrite="+rw.name, fmt.Sprintf("the pool booked the rewritten transaction %x ([%s]) to the original sender %x", forged.Hash().Bytes()[:6], rw.name, orig.Bytes()))
					return
				}
			}
			_ = qb
		}
	}
	// the same content signed by the same key for other networks (0 = "unspecified", small ids, the neighbour id): a node of
	// this chain must not attribute any of them to the key holder
	if in, ok := tx.Inner().(*types.QuaiTx); ok {
		var key *ecdsaKey
		for _, a := range quaiAccounts {
			if a.Addr.Equal(orig) {
				key = a.Key
			}
		}
		for _, id := range []int64{0, 1, 9, 1337, params.Blake3PowLocalChainConfig.ChainID.Int64() + 1} {
			if key == nil || big.NewInt(id).Cmp(params.Blake3PowLocalChainConfig.ChainID) == 0 {
				continue
			}
			q := copyQuai(tx)
			q.ChainID = big.NewInt(id)
			q.V, q.R, q.S = new(big.Int), new(big.Int), new(big.Int)
			_ = in
			foreign, err := types.SignNewTx(key, types.NewSigner(big.NewInt(id), LocZone), q)
			if err != nil {
				continue
			}
			simkit.Global.Inc("fault.foreign-chain-signature")
			if got, err := types.Sender(signer, foreign); err == nil && got.Equal(orig) {
				fail("cross-chain-replay", fmt.Sprintf("signed-for-chain-id=%d", id), fmt.Sprintf("a transaction the key holder signed for chain id %d is attributed to %x by a signer of chain id %v", id, orig.Bytes(), params.Blake3PowLocalChainConfig.ChainID))
				return
			}
			_ = pool.AddRemote(foreign)
			pend, queued := pool.ContentFrom(quaiInternal(orig))
			for _, t2 := range append(pend, queued...) {
				if t2.Hash() == foreign.Hash() {
					fail("cross-chain-replay", fmt.Sprintf("pool signed-for-chain-id=%d", id), fmt.Sprintf("the pool of chain %v booked a transaction signed for chain id %d to %x", params.Blake3PowLocalChainConfig.ChainID, id, orig.Bytes()))
					return
				}
			}
		}
	}
	// sender cache across chain ids and locations
	other := types.NewSigner(big.NewInt(9000), LocZone)
	if got, err := types.Sender(other, tx); err == nil && got.Equal(orig) {
		fail("sender-cache", "other-chain-id", fmt.Sprintf("a signer of chain id 9000 returned the sender %x cached for chain id %v", orig.Bytes(), params.Blake3PowLocalChainConfig.ChainID))
		return
	}
	if got, err := types.Sender(signer, tx); err != nil || !got.Equal(orig) {
		fail("sender-cache", "original-signer-after-other", fmt.Sprintf("after asking another chain's signer, the original signer returns %v, %v", got, err))
		return
	}
	// provenance: the recovered sender is the harness key that signed it
	found := false
	for _, a := range quaiAccounts {
		if a.Addr.Equal(orig) && crypto.PubkeyToAddress(a.Key.PublicKey, LocZone).Equal(orig) {
			found = true
		}
	}
	if !found {
		fail("provenance", "unknown-sender", fmt.Sprintf("transaction %x recovers sender %x which is none of the signing keys", tx.Hash().Bytes()[:6], orig.Bytes()))
	}
}

func quaiInternal(a common.Address) common.InternalAddress {
	ia, _ := a.InternalAddress()
	return ia
}

// checkQiAuthorisation: a Qi transaction with any signed part changed (input, output, data, chain id) or signed by
// keys other than the owners' no longer passes the node's signature check.
func checkQiAuthorisation(r *Runner, tx *types.Transaction, fail func(class, witness, detail string)) {
	in, ok := tx.Inner().(*types.QiTx)
	if !ok || !verifyQiSig(tx) {
		return
	}
	n := r.N
	ph, err := n.PendingWork(n.Cfg.QuaiCoinbase)
	if err != nil {
		return
	}
	hc := n.Zone().Slice().HeaderChain()
	signer := types.NewSigner(params.Blake3PowLocalChainConfig.ChainID, LocZone)
	total, err := coreValidateInputs(tx, hc, n, ph, signer)
	if err != nil {
		return // not currently valid on this head (spent, locked...): nothing to compare
	}
	if _, err := coreValidateOutputs(tx, hc, total, ph, signer); err != nil {
		return
	}
	type rw struct {
		name  string
		apply func(q *types.QiTx) bool
	}
	rws := []rw{
		{"output-denomination", func(q *types.QiTx) bool {
			if len(q.TxOut) == 0 || q.TxOut[0].Denomination == 0 {
				return false
			}
			outs := append(types.TxOuts{}, q.TxOut...)
			outs[0].Denomination--
			q.TxOut = outs
			return true
		}},
		{"output-address", func(q *types.QiTx) bool {
			if len(q.TxOut) == 0 {
				return false
			}
			outs := append(types.TxOuts{}, q.TxOut...)
			used := map[string]bool{}
			for _, o := range outs {
				used[string(o.Address)] = true
			}
			for _, a := range qiAccounts {
				if !used[string(a.Addr.Bytes())] { // an address the transaction does not use yet
					outs[0].Address = a.Addr.Bytes()
					q.TxOut = outs
					return true
				}
			}
			return false
		}},
		{"drop-output", func(q *types.QiTx) bool {
			if len(q.TxOut) < 2 {
				return false
			}
			q.TxOut = append(types.TxOuts{}, q.TxOut[:len(q.TxOut)-1]...)
			return true
		}},
		{"data", func(q *types.QiTx) bool {
			if len(q.Data) == 0 {
				return false
			}
			d := append([]byte{}, q.Data...)
			d[1] ^= 1
			q.Data = d
			return true
		}},
		{"chain-id", func(q *types.QiTx) bool { q.ChainID = new(big.Int).Add(q.ChainID, big.NewInt(1)); return true }},
	}
	// the digest the owners sign covers the data field whatever its length (20 bytes: the contract that will own wrapped Qi;
	// 22 bytes: a conversion's slip and refund address; anything else)
	digests := map[common.Hash]string{}
	for _, d := range [][]byte{nil, {0x01}, bytes.Repeat([]byte{0xaa}, 20), bytes.Repeat([]byte{0xbb}, 20), bytes.Repeat([]byte{0xaa}, 22), bytes.Repeat([]byte{0xbb}, 22), bytes.Repeat([]byte{0xaa}, 23)} {
		cp := *in
		cp.Data = d
		h := signer.Hash(types.NewTx(&cp))
		if prev, dup := digests[h]; dup {
			fail("sender-under-rewrite", "qi signing-digest ignores-data", fmt.Sprintf("Qi transaction %x: the signing digest is the same with data %x and with data %s, so a signature made for one authorises the other", tx.Hash().Bytes()[:6], d, prev))
			return
		}
		digests[h] = fmt.Sprintf("%x", d)
	}
	simkit.Global.Inc("qi_digest_data_tables")
	for _, x := range rws {
		cp := *in
		cp.TxIn = append(types.TxIns{}, in.TxIn...)
		cp.TxOut = append(types.TxOuts{}, in.TxOut...)
		cp.ChainID = new(big.Int).Set(in.ChainID)
		if !x.apply(&cp) {
			continue
		}
		forged := types.NewTx(&cp)
		tot, err := coreValidateInputs(forged, hc, n, ph, signer)
		if err != nil {
			simkit.Global.Inc("qi_rewrites_checked")
			continue
		}
		if _, err := coreValidateOutputs(forged, hc, tot, ph, signer); err == nil {
			fail("sender-under-rewrite", "qi rewrite="+x.name, fmt.Sprintf("Qi transaction %x with [%s] changed and the Schnorr signature kept passes the node's validation", tx.Hash().Bytes()[:6], x.name))
			return
		}
		simkit.Global.Inc("qi_rewrites_checked")
		simkit.Global.Inc("fault.rewrite.qi-" + x.name)
	}
}

func TestC03(t *testing.T) {
	chainProperty(t, "C03", func(r *Runner, fail func(class, witness, detail string)) Hooks {
		n := 0
		heads := 0
		return Hooks{AfterHead: func(w *World, nd *Node, bi *BlockInfo, reorg bool) {
			// the validator's own Qi path (what a block placed by a miner goes through, the pool is not involved)
			if heads++; !reorg && heads%3 == 0 {
				directQiVerdicts(nd, heads+int(bi.Number), fail)
			}
		}, TxBuilt: func(w *World, tx *types.Transaction, flavour string, poolErr error) {
			n++
			switch tx.Type() {
			case types.QuaiTxType:
				if n%2 == 0 {
					checkQuaiAuthorisation(r, tx, fail)
				}
			case types.QiTxType:
				checkQiAuthorisation(r, tx, fail)
			}
		}}
	})
}

func coreValidateInputs(tx *types.Transaction, hc *core.HeaderChain, n *Node, ph *types.WorkObject, signer types.Signer) (*big.Int, error) {
	return core.ValidateQiTxInputs(tx, hc, n.DBs[common.ZONE_CTX], ph, signer, LocZone, *params.Blake3PowLocalChainConfig.ChainID)
}

func coreValidateOutputs(tx *types.Transaction, hc *core.HeaderChain, total *big.Int, ph *types.WorkObject, signer types.Signer) (*big.Int, error) {
	return core.ValidateQiTxOutputsAndSignature(tx, hc, total, ph, signer, LocZone, *params.Blake3PowLocalChainConfig.ChainID, 1, params.ETXRLimitMin, params.ETXPLimitMin)
}
