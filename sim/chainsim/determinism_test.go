package chainsim

import (
	"os"
	"strings"
	"testing"

	"verif/sim/simkit"
)

// TestDeterminismProbe runs one fixed tape several times in-process and reports the first diverging event.
func TestDeterminismProbe(t *testing.T) {
	os.Setenv("VERIF_TRACE", "1")
	tape := []Op{}
	for i := 0; i < 40; i++ {
		k := []int{OpMine, OpTransfer, OpConvert, OpQiSpend, OpMine, OpMine, OpRewind, OpQiSpend, OpTransfer, OpMine}[i%10]
		tape = append(tape, Op{k, i % 7, (i * 3) % 11, (i * 5) % 13, i % 4})
	}
	var ref []string
	for rep := 0; rep < 6; rep++ {
		tr := simkit.NewTrace()
		runChainP(t, tr, DefaultNodeConfig("n0"), DefaultRegime(), 1, tape, func(r *Runner) Hooks { return Hooks{} })
		if rep == 0 {
			ref = tr.Log
			t.Logf("events=%d digest=%s", len(ref), tr.Digest())
			continue
		}
		for i := range tr.Log {
			if i >= len(ref) || tr.Log[i] != ref[i] {
				lo := i - 3
				if lo < 0 {
					lo = 0
				}
				t.Fatalf("rep %d diverges at event %d:\n ref: %v\n got: %v", rep, i, strings.Join(ref[i:min(i+12, len(ref))], "\n      "), strings.Join(tr.Log[i:min(i+12, len(tr.Log))], "\n      "))
			}
		}
	}
}
