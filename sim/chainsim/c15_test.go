package chainsim

import (
	"bytes"
	"encoding/binary"
	"errors"
	"fmt"
	"sort"
	"testing"
	"testing/synctest"

	"github.com/dominant-strategies/go-quai/common"
	"github.com/dominant-strategies/go-quai/core/types"
	"github.com/dominant-strategies/go-quai/p2p/pb"
	"google.golang.org/protobuf/proto"
	"google.golang.org/protobuf/reflect/protoreflect"

	"verif/sim/simkit"
)

// corrupt applies one deterministic mutation (chosen by k) to a wire frame.
func corrupt(frame []byte, k uint64) ([]byte, string) {
	out := append([]byte{}, frame...)
	if len(out) == 0 {
		return out, "empty"
	}
	pos := int(k/7) % len(out)
	switch k % 7 {
	case 0:
		out[pos] ^= 1 << (k / 11 % 8)
		return out, "bit-flip"
	case 1:
		return out[:pos], "truncate"
	case 2:
		return append(out[:pos], out[min(pos+1+int(k%5), len(out)):]...), "delete-bytes"
	case 3:
		end := min(pos+1+int(k%9), len(out))
		return append(append(append([]byte{}, out[:end]...), out[pos:end]...), out[end:]...), "duplicate-bytes"
	case 4:
		out[pos] = 0xff
		return out, "byte-ff"
	case 5:
		// blow up a length prefix: a varint saying "a lot follows"
		return append(append(append([]byte{}, out[:pos]...), 0xff, 0xff, 0xff, 0xff, 0x0f), out[pos:]...), "huge-length-prefix"
	default:
		out[pos] = 0x00
		return out, "byte-00"
	}
}

// TestC15 (wire half): every block view a run produces is serialised with the production gossip codec, corrupted and pushed
// through the production receive pipeline (UnmarshalAndConvert -> sanity check -> WriteBlock / append). Nothing may panic.
func TestC15(t *testing.T) {
	chainProperty(t, "C15", func(r *Runner, fail func(class, witness, detail string)) Hooks {
		counter := uint64(0)
		return Hooks{AfterHead: func(w *World, n *Node, bi *BlockInfo, reorg bool) {
			if reorg {
				return
			}
			seed := binary.BigEndian.Uint64(bi.Hash[8:16])
			for ctx := common.ZONE_CTX; ctx >= bi.Order; ctx-- {
				v := bi.Views[ctx]
				if v == nil {
					continue
				}
				type entry struct {
					name  string
					frame func() ([]byte, error)
					dt    interface{}
				}
				entries := []entry{
					{"block-view", func() ([]byte, error) { return pb.ConvertAndMarshal(v.ConvertToBlockView()) }, &types.WorkObjectBlockView{}},
					{"header-view", func() ([]byte, error) { return pb.ConvertAndMarshal(v.ConvertToHeaderView()) }, &types.WorkObjectHeaderView{}},
				}
				for _, e := range entries {
					raw, err := e.frame()
					if err != nil {
						continue
					}
					type badFrame struct {
						bad  []byte
						kind string
						k    uint64
					}
					var bads []badFrame
					for j := 0; j < 6; j++ {
						counter++
						k := seed + counter*0x9e3779b97f4a7c15
						bad, kind := corrupt(raw, k)
						bads = append(bads, badFrame{bad, kind, k})
					}
					// well-formed protobuf with one optional part left out (a peer may omit any field)
					var shell proto.Message = &types.ProtoWorkObjectBlockView{}
					if e.name == "header-view" {
						shell = &types.ProtoWorkObjectHeaderView{}
					}
					var dropped []fieldVariant
					if bi.Number%3 == 0 {
						dropped = dropFieldVariants(raw, shell)
					}
					for _, fv := range dropped {
						bads = append(bads, badFrame{fv.raw, "field-dropped", uint64(len(bads))})
						simkit.Global.Seen("dropped_field", fv.path)
					}
					for _, bf := range bads {
						bad, kind, k := bf.bad, bf.kind, bf.k
						simkit.Global.Inc("fault.corrupt." + kind)
						perr := guarded(func() error {
							var data interface{}
							if err := pb.UnmarshalAndConvert(bad, locOf(ctx), &data, e.dt); err != nil {
								simkit.Global.Inc("frames_rejected_by_decoder")
								return nil
							}
							var wo *types.WorkObject
							switch d := data.(type) {
							case types.WorkObjectBlockView:
								wo = d.WorkObject
								if err := n.Cores[ctx].SanityCheckWorkObjectBlockViewBody(wo); err != nil {
									simkit.Global.Inc("frames_rejected_by_sanity_check")
									return nil
								}
							case types.WorkObjectHeaderView:
								wo = d.WorkObject
								if err := n.Cores[ctx].SanityCheckWorkObjectHeaderViewBody(wo); err != nil {
									simkit.Global.Inc("frames_rejected_by_sanity_check")
									return nil
								}
							}
							if wo == nil {
								return nil
							}
							simkit.Global.Inc("frames_reaching_the_core")
							_ = wo.Hash()
							n.Cores[ctx].WriteBlock(wo)
							synctest.Wait()
							return nil
						})
						if perr != nil {
							fail("no-panic", fmt.Sprintf("entry=%s mutation=%s", e.name, kind), fmt.Sprintf("a corrupted %s frame of block #%d (ctx %d, %d bytes, mutation %s at k=%d) made the node panic: %v", e.name, bi.Number, ctx, len(bad), kind, k, perr))
							return
						}
						simkit.Global.Inc("corrupted_frames")
					}
				}
			}
			// transactions as they travel inside share views / tx gossip: protobuf transaction frames
			blk := bi.Views[common.ZONE_CTX]
			for _, tx := range blk.Transactions() {
				ptx, err := tx.ProtoEncode()
				if err != nil {
					continue
				}
				raw, _ := proto.Marshal(ptx)
				for j := 0; j < 3; j++ {
					counter++
					k := seed + counter*0x9e3779b97f4a7c15
					bad, kind := corrupt(raw, k)
					perr := guarded(func() error {
						p2 := new(types.ProtoTransaction)
						if err := proto.Unmarshal(bad, p2); err != nil {
							return nil
						}
						out := new(types.Transaction)
						if err := out.ProtoDecode(p2, LocZone); err != nil {
							return nil
						}
						_ = out.Hash()
						_ = n.Zone().Slice().TxPool().AddRemote(out)
						synctest.Wait()
						return nil
					})
					if perr != nil {
						fail("no-panic", "entry=transaction mutation="+kind, fmt.Sprintf("a corrupted transaction frame (type %d, mutation %s at k=%d) made the node panic: %v", tx.Type(), kind, k, perr))
						return
					}
					simkit.Global.Inc("corrupted_frames")
					simkit.Global.Inc("fault.corrupt.tx-" + kind)
				}
			}
			// request / response frames of the peer protocol
			if names, frames, err := p2pFrames(bi); err == nil {
				for fi, raw := range frames {
					for j := 0; j < 2; j++ {
						counter++
						k := seed + counter*0x9e3779b97f4a7c15
						bad, kind := corrupt(raw, k)
						simkit.Global.Inc("fault.corrupt.p2p-" + kind)
						perr := guarded(func() error {
							msg, err := pb.DecodeQuaiMessage(bad)
							if err != nil {
								simkit.Global.Inc("frames_rejected_by_decoder")
								return nil
							}
							if r := msg.GetRequest(); r != nil {
								_, _, _, _, _ = pb.DecodeQuaiRequest(r)
							}
							if r := msg.GetResponse(); r != nil {
								if _, payload, err := pb.DecodeQuaiResponse(r); err == nil {
									switch x := payload.(type) {
									case *types.WorkObjectBlockView:
										_ = x.Hash()
										_ = n.Zone().SanityCheckWorkObjectBlockViewBody(x.WorkObject)
									case *types.WorkObjectHeaderView:
										_ = x.Hash()
										_ = n.Zone().SanityCheckWorkObjectHeaderViewBody(x.WorkObject)
									case []*types.WorkObjectBlockView:
										for _, b := range x {
											_ = b.Hash()
										}
									}
								}
							}
							return nil
						})
						if perr != nil {
							fail("no-panic", "entry=p2p-"+names[fi]+" mutation="+kind, fmt.Sprintf("a corrupted %s frame (%d bytes, mutation %s at k=%d) made the decode path panic: %v", names[fi], len(bad), kind, k, perr))
							return
						}
						simkit.Global.Inc("corrupted_frames")
					}
				}
			}
			// AuxPoW donor data as a peer ships it inside a work object header
			if err := feedDonorFrames(blk, seed, &counter, fail); err != nil {
				return
			}
			// the node must still be on its honest head
			if n.Zone().CurrentHeader().Hash() != bi.Hash {
				if err := w.SetHead(n, bi.Hash); err != nil {
					fail("no-panic", "head-lost-after-corrupted-frames", fmt.Sprintf("after the corrupted frames the node cannot return to its head #%d: %v", bi.Number, err))
				}
			}
			w.outbox = nil
		}}
	})
}

// donorCoinbase serialises a one-input, zero-output donor-chain coinbase transaction around scriptSig.
func donorCoinbase(scriptSig []byte) []byte {
	var buf bytes.Buffer
	binary.Write(&buf, binary.LittleEndian, uint32(1))
	buf.WriteByte(1)
	buf.Write(make([]byte, 32))
	buf.Write([]byte{0xff, 0xff, 0xff, 0xff})
	buf.WriteByte(byte(len(scriptSig)))
	buf.Write(scriptSig)
	buf.Write([]byte{0xff, 0xff, 0xff, 0xff})
	buf.WriteByte(0)
	buf.Write([]byte{0, 0, 0, 0})
	return buf.Bytes()
}

// receiveDonor does what a receiving node does with the AuxPoW part of a work object header: decode the frame, then
// the sequence of parsers the share validator and header verification run on the donor coinbase and header.
func receiveDonor(frame []byte) {
	pa := new(types.ProtoAuxPow)
	if err := proto.Unmarshal(frame, pa); err != nil {
		simkit.Global.Inc("frames_rejected_by_decoder")
		return
	}
	aux := new(types.AuxPow)
	if err := aux.ProtoDecode(pa); err != nil || aux.Header() == nil {
		simkit.Global.Inc("frames_rejected_by_decoder")
		return
	}
	simkit.Global.Inc("probe.donor_frames_parsed")
	scriptSig := types.ExtractScriptSigFromCoinbaseTx(aux.Transaction())
	_, _ = types.ExtractSignatureTimeFromCoinbase(scriptSig)
	_ = aux.Header().Timestamp()
	_, _ = types.ExtractSealHashFromCoinbase(scriptSig)
	_, _, _ = types.ExtractMerkleSizeAndNonceFromCoinbase(scriptSig)
	_, _ = types.ExtractHeightFromCoinbase(scriptSig)
	_ = types.ExtractCoinbaseOutFromCoinbaseTx(aux.Transaction())
	_ = types.CalculateMerkleRoot(aux.PowID(), aux.Transaction(), aux.MerkleBranch())
	_ = aux.Header().MerkleRoot()
	_ = types.ValidatePrevOutPointIndexAndSequenceOfCoinbase(aux.Transaction())
	_ = aux.ConvertToTemplate().VerifySignature()
	_ = aux.Header().PowHash()
}

func feedDonorFrames(blk *types.WorkObject, seed uint64, counter *uint64, fail func(class, witness, detail string)) error {
	script := types.BuildCoinbaseScriptSigWithNonce(uint32(840000+blk.NumberU64(common.ZONE_CTX)), 7, 9, blk.SealHash(), 1, uint32(blk.Time()))
	for idx, powID := range []types.PowID{types.SHA_BTC, types.SHA_BCH, types.Scrypt} {
		var hdr []byte
		switch powID {
		case types.SHA_BTC:
			hdr = types.NewAuxPowHeader(types.NewBitcoinBlockHeader(0x20000000, [32]byte{1}, [32]byte{2}, uint32(blk.Time()), 0x1d00ffff, 42)).Bytes()
		default:
			hdr = types.NewBlockHeader(powID, 0x20000000, [32]byte{1}, [32]byte{2}, uint32(blk.Time()), 0x1d00ffff, 42, 0).Bytes()
		}
		id := uint32(powID)
		mk := func(tx []byte) []byte {
			raw, _ := proto.Marshal(&types.ProtoAuxPow{ChainId: &id, Header: hdr, Signature: []byte{0x01}, MerkleBranch: [][]byte{bytes.Repeat([]byte{3}, 32)}, Transaction: tx})
			return raw
		}
		type frame struct {
			kind string
			raw  []byte
		}
		var frames []frame
		frames = append(frames, frame{"well-formed", mk(donorCoinbase(script))})
		if idx == int(seed%3) { // every truncation of the donor coinbase's scriptSig
			for keep := len(script) - 1; keep >= 0; keep-- {
				frames = append(frames, frame{"donor-script-truncated", mk(donorCoinbase(script[:keep]))})
			}
		}
		for j := 0; j < 4; j++ {
			*counter++
			k := seed + *counter*0x9e3779b97f4a7c15
			bad, kind := corrupt(donorCoinbase(script), k)
			frames = append(frames, frame{"donor-tx-" + kind, mk(bad)})
			bad, kind = corrupt(frames[0].raw, k)
			frames = append(frames, frame{"donor-frame-" + kind, bad})
		}
		for _, f := range frames {
			simkit.Global.Inc("fault.corrupt." + f.kind)
			if perr := guarded(func() error { receiveDonor(f.raw); return nil }); perr != nil {
				fail("no-panic", "entry=auxpow-donor mutation="+f.kind, fmt.Sprintf("an AuxPoW donor frame (%s, pow id %d, %d bytes) made the receive path panic: %v", f.kind, powID, len(f.raw), perr))
				return errors.New("violation")
			}
			simkit.Global.Inc("corrupted_frames")
		}
	}
	return nil
}

type fieldVariant struct {
	path string
	raw  []byte
}

// dropFieldVariants decodes raw into shell and returns one re-encoding per populated message- or bytes-typed field (down to
// depth 4) with exactly that field cleared.
func dropFieldVariants(raw []byte, shell proto.Message) []fieldVariant {
	if err := proto.Unmarshal(raw, shell); err != nil {
		return nil
	}
	var paths [][]protoreflect.FieldDescriptor
	var walk func(m protoreflect.Message, prefix []protoreflect.FieldDescriptor, depth int)
	walk = func(m protoreflect.Message, prefix []protoreflect.FieldDescriptor, depth int) {
		m.Range(func(fd protoreflect.FieldDescriptor, v protoreflect.Value) bool {
			if fd.IsList() || fd.IsMap() {
				return true
			}
			if fd.Kind() == protoreflect.MessageKind || fd.Kind() == protoreflect.BytesKind {
				p := append(append([]protoreflect.FieldDescriptor{}, prefix...), fd)
				paths = append(paths, p)
				if fd.Kind() == protoreflect.MessageKind && depth < 4 {
					walk(v.Message(), p, depth+1)
				}
			}
			return true
		})
	}
	walk(shell.ProtoReflect(), nil, 0)
	sort.Slice(paths, func(i, j int) bool { return pathName(paths[i]) < pathName(paths[j]) })
	var out []fieldVariant
	for _, p := range paths {
		c := proto.Clone(shell)
		m := c.ProtoReflect()
		for _, fd := range p[:len(p)-1] {
			m = m.Mutable(fd).Message()
		}
		m.Clear(p[len(p)-1])
		if b, err := (proto.MarshalOptions{Deterministic: true}).Marshal(c); err == nil {
			out = append(out, fieldVariant{pathName(p), b})
		}
	}
	return out
}

func pathName(p []protoreflect.FieldDescriptor) string {
	s := ""
	for i, fd := range p {
		if i > 0 {
			s += "."
		}
		s += string(fd.Name())
	}
	return s
}
