package chainsim

import (
	"bytes"
	"encoding/json"
	"fmt"
	"github.com/dominant-strategies/go-quai/p2p/pb"
	"github.com/dominant-strategies/go-quai/params"
	"github.com/dominant-strategies/go-quai/rlp"
	"github.com/dominant-strategies/go-quai/trie"
	"math/big"
	"strings"
	"testing"

	"github.com/dominant-strategies/go-quai/common"
	"github.com/dominant-strategies/go-quai/core/rawdb"
	"github.com/dominant-strategies/go-quai/core/types"
	"google.golang.org/protobuf/proto"

	"verif/sim/simkit"
)

// wire round trip of a work object in one view: decode(encode(x)) has the same hash and re-encodes to identical bytes.
func woRoundTrip(b *types.WorkObject, view types.WorkObjectView, loc common.Location) error {
	pb, err := b.ProtoEncode(view)
	if err != nil {
		return fmt.Errorf("encode: %v", err)
	}
	raw, err := proto.MarshalOptions{Deterministic: true}.Marshal(pb)
	if err != nil {
		return fmt.Errorf("marshal: %v", err)
	}
	pb2 := new(types.ProtoWorkObject)
	if err := proto.Unmarshal(raw, pb2); err != nil {
		return fmt.Errorf("unmarshal: %v", err)
	}
	out := &types.WorkObject{}
	if err := out.ProtoDecode(pb2, loc, view); err != nil {
		return fmt.Errorf("decode: %v", err)
	}
	if out.Hash() != b.Hash() {
		return fmt.Errorf("hash %x -> %x", b.Hash().Bytes()[:6], out.Hash().Bytes()[:6])
	}
	pb3, err := out.ProtoEncode(view)
	if err != nil {
		return fmt.Errorf("re-encode: %v", err)
	}
	raw2, _ := proto.MarshalOptions{Deterministic: true}.Marshal(pb3)
	if !bytes.Equal(raw, raw2) {
		return fmt.Errorf("re-encoding differs (%d vs %d bytes)", len(raw), len(raw2))
	}
	if view == types.BlockObject {
		if out.Header().Hash() != b.Header().Hash() || out.SealHash() != b.SealHash() {
			return fmt.Errorf("header or seal hash changed")
		}
		if len(out.Transactions()) != len(b.Transactions()) || len(out.OutboundEtxs()) != len(b.OutboundEtxs()) || len(out.Uncles()) != len(b.Uncles()) {
			return fmt.Errorf("body lengths changed")
		}
		for i, tx := range b.Transactions() {
			if out.Transactions()[i].Hash() != tx.Hash() {
				return fmt.Errorf("tx %d hash changed", i)
			}
		}
	}
	return nil
}

// txFieldDiff names the first field in which two transactions differ ("" if none): equality of the decoded object is
// judged field by field, not through the hash (the hash is computed from an encoding, so a field the encoder drops would
// drop out of both sides).
func txFieldDiff(a, b *types.Transaction) string {
	ptr := func(x, y interface{ Bytes() []byte }, xnil, ynil bool) bool {
		if xnil || ynil {
			return xnil == ynil
		}
		return bytes.Equal(x.Bytes(), y.Bytes())
	}
	bigEq := func(x, y *big.Int) bool {
		if x == nil || y == nil {
			return (x == nil || x.Sign() == 0) && (y == nil || y.Sign() == 0)
		}
		return x.Cmp(y) == 0
	}
	switch {
	case a.Type() != b.Type():
		return "type"
	case a.Type() != types.ExternalTxType && !bigEq(a.ChainId(), b.ChainId()):
		return "chainId"
	case !bytes.Equal(a.Data(), b.Data()):
		return "data"
	}
	wn := func(t *types.Transaction) []byte {
		if t.WorkNonce() == nil {
			return nil
		}
		n := *t.WorkNonce()
		return append([]byte{1}, n[:]...)
	}
	if a.Type() != types.ExternalTxType {
		switch {
		case !ptr(a.ParentHash(), b.ParentHash(), a.ParentHash() == nil, b.ParentHash() == nil):
			return "parentHash"
		case !ptr(a.MixHash(), b.MixHash(), a.MixHash() == nil, b.MixHash() == nil):
			return "mixHash"
		case !bytes.Equal(wn(a), wn(b)):
			return "workNonce"
		}
	}
	switch a.Type() {
	case types.QuaiTxType, types.ExternalTxType:
		switch {
		case a.Gas() != b.Gas():
			return "gas"
		case !bigEq(a.Value(), b.Value()):
			return "value"
		case !ptr(a.To(), b.To(), a.To() == nil, b.To() == nil):
			return "to"
		case len(a.AccessList()) != len(b.AccessList()):
			return "accessList"
		}
		for i, t := range a.AccessList() {
			if !t.Address.Equal(b.AccessList()[i].Address) || len(t.StorageKeys) != len(b.AccessList()[i].StorageKeys) {
				return "accessList"
			}
			for j, k := range t.StorageKeys {
				if k != b.AccessList()[i].StorageKeys[j] {
					return "accessList"
				}
			}
		}
		if a.Type() == types.QuaiTxType {
			av, ar, as := a.GetEcdsaSignatureValues()
			bv, br, bs := b.GetEcdsaSignatureValues()
			switch {
			case a.Nonce() != b.Nonce():
				return "nonce"
			case !bigEq(a.GasPrice(), b.GasPrice()):
				return "gasPrice"
			case !bigEq(av, bv) || !bigEq(ar, br) || !bigEq(as, bs):
				return "signature"
			}
		} else {
			switch {
			case a.OriginatingTxHash() != b.OriginatingTxHash():
				return "originatingTxHash"
			case a.ETXIndex() != b.ETXIndex():
				return "etxIndex"
			case !a.ETXSender().Equal(b.ETXSender()):
				return "sender"
			case a.EtxType() != b.EtxType():
				return "etxType"
			}
		}
	case types.QiTxType:
		if len(a.TxIn()) != len(b.TxIn()) || len(a.TxOut()) != len(b.TxOut()) {
			return "txIn/txOut count"
		}
		for i, in := range a.TxIn() {
			o := b.TxIn()[i]
			if in.PreviousOutPoint != o.PreviousOutPoint || !bytes.Equal(in.PubKey, o.PubKey) {
				return "txIn"
			}
		}
		for i, out := range a.TxOut() {
			o := b.TxOut()[i]
			if out.Denomination != o.Denomination || !bytes.Equal(out.Address, o.Address) || !bigEq(out.Lock, o.Lock) {
				return "txOut"
			}
		}
		if (a.GetSchnorrSignature() == nil) != (b.GetSchnorrSignature() == nil) || (a.GetSchnorrSignature() != nil && !bytes.Equal(a.GetSchnorrSignature().Serialize(), b.GetSchnorrSignature().Serialize())) {
			return "signature"
		}
	}
	return ""
}

// qiRLPFinding holds the first occurrence of the known Qi-RLP work-field loss in the current run.
var qiRLPFinding string

// txFieldDiffRLP is txFieldDiff for the typed-RLP form.
func txFieldDiffRLP(a, b *types.Transaction) string { return txFieldDiff(a, b) }

// txPresenceVariants returns copies of a Quai or Qi transaction with every presence combination of the optional work
// fields (the signature is kept: the copies are well-formed objects, not valid spends).
func txPresenceVariants(tx *types.Transaction, salt byte) []*types.Transaction {
	var out []*types.Transaction
	for combo := 1; combo < 8; combo++ {
		var ph, mh *common.Hash
		var wn *types.BlockNonce
		if combo&1 != 0 {
			h := common.Hash{0: 0xa1, 31: salt}
			ph = &h
		}
		if combo&2 != 0 {
			h := common.Hash{0: 0xb2, 30: salt}
			mh = &h
		}
		if combo&4 != 0 {
			n := types.BlockNonce{0x01, 0x02, 0x03, 0x04, 0x05, 0x06, 0x07, salt}
			wn = &n
		}
		switch in := tx.Inner().(type) {
		case *types.QuaiTx:
			c := *in
			c.ParentHash, c.MixHash, c.WorkNonce = ph, mh, wn
			out = append(out, types.NewTx(&c))
		case *types.QiTx:
			c := *in
			c.ParentHash, c.MixHash, c.WorkNonce = ph, mh, wn
			out = append(out, types.NewTx(&c))
		}
	}
	return out
}

func txRoundTrips(tx *types.Transaction, loc common.Location) error {
	pb, err := tx.ProtoEncode()
	if err != nil {
		return fmt.Errorf("proto encode: %v", err)
	}
	raw, _ := proto.MarshalOptions{Deterministic: true}.Marshal(pb)
	pb2 := new(types.ProtoTransaction)
	if err := proto.Unmarshal(raw, pb2); err != nil {
		return fmt.Errorf("proto unmarshal: %v", err)
	}
	out := new(types.Transaction)
	if err := out.ProtoDecode(pb2, loc); err != nil {
		return fmt.Errorf("proto decode: %v", err)
	}
	if out.Hash() != tx.Hash() {
		return fmt.Errorf("proto: hash %x -> %x", tx.Hash().Bytes()[:6], out.Hash().Bytes()[:6])
	}
	if d := txFieldDiff(tx, out); d != "" {
		return fmt.Errorf("proto: field %s differs after the round trip", d)
	}
	pb3, _ := out.ProtoEncode()
	raw2, _ := proto.MarshalOptions{Deterministic: true}.Marshal(pb3)
	if !bytes.Equal(raw, raw2) {
		return fmt.Errorf("proto: re-encoding differs")
	}
	// canonical binary form (typed RLP: what the raw-transaction RPCs hand out and the transaction trie hashes)
	bin, err := tx.MarshalBinary()
	if err != nil {
		return fmt.Errorf("binary: marshal: %v", err)
	}
	keep := append([]byte{}, bin...)
	if other, err2 := tx.ProtoEncode(); err2 == nil { // unrelated encoding work in between
		_, _ = proto.Marshal(other)
		_, _ = rlp.EncodeToBytes(tx)
		_ = types.DeriveSha(types.Transactions{tx, tx}, trie.NewStackTrie(nil))
	}
	if !bytes.Equal(bin, keep) {
		return fmt.Errorf("binary: the bytes handed out by MarshalBinary changed after later encodings")
	}
	var fromBin types.Transaction
	if err := fromBin.UnmarshalBinary(keep); err != nil {
		return fmt.Errorf("binary: unmarshal of its own encoding: %v", err)
	}
	if d := txFieldDiffRLP(tx, &fromBin); d != "" {
		if tx.Type() == types.QiTxType && (d == "parentHash" || d == "mixHash" || d == "workNonce") {
			// known: the RLP form of a Qi transaction (WireQiTx) has no work fields. Reported once per run, at its end.
			if qiRLPFinding == "" {
				qiRLPFinding = fmt.Sprintf("Qi transaction %x: field %s is lost in the typed-RLP form (MarshalBinary / transaction-trie leaf), which is byte-identical to that of the same transaction without it", tx.Hash().Bytes()[:6], d)
			}
		} else {
			return fmt.Errorf("binary: field %s differs after the round trip", d)
		}
	} else if bin2, _ := fromBin.MarshalBinary(); !bytes.Equal(bin2, keep) {
		return fmt.Errorf("binary: re-encoding differs")
	}
	// JSON (the RPC form)
	js, err := json.Marshal(tx)
	if err != nil {
		return fmt.Errorf("json marshal: %v", err)
	}
	var back types.Transaction
	if err := json.Unmarshal(js, &back); err != nil {
		return fmt.Errorf("json unmarshal: %v (%s)", err, string(js[:min(len(js), 200)]))
	}
	if back.Hash() != tx.Hash() {
		return fmt.Errorf("json: hash %x -> %x", tx.Hash().Bytes()[:6], back.Hash().Bytes()[:6])
	}
	if d := txFieldDiff(tx, &back); d != "" {
		return fmt.Errorf("json: field %s differs after the round trip", d)
	}
	js2, _ := json.Marshal(&back)
	if !bytes.Equal(js, js2) {
		return fmt.Errorf("json: re-encoding differs")
	}
	return nil
}

func TestC14(t *testing.T) {
	chainProperty(t, "C14", func(r *Runner, fail func(class, witness, detail string)) Hooks {
		seenHashes := map[common.Hash]string{}
		bloomFinding := ""
		qiRLPFinding = ""
		return Hooks{
			End: func(w *World) {
				if qiRLPFinding != "" {
					d := qiRLPFinding
					qiRLPFinding = ""
					fail("wire-roundtrip", "object=tx type=2 work-fields path=binary qi-rlp-without-work-fields", d)
					return
				}
				if bloomFinding != "" {
					fail("disk-roundtrip", "object=receipts receipt-root etx-log-bloom-unset", bloomFinding)
				}
			},
			AfterHead: func(w *World, n *Node, bi *BlockInfo, reorg bool) {
				if reorg {
					return
				}
				for ctx := common.ZONE_CTX; ctx >= bi.Order; ctx-- {
					v := bi.Views[ctx]
					if v == nil {
						continue
					}
					for _, view := range []types.WorkObjectView{types.BlockObject, types.HeaderObject} {
						if err := woRoundTrip(v, view, locOf(ctx)); err != nil {
							fail("wire-roundtrip", fmt.Sprintf("object=workobject view=%d ctx=%d", view, ctx), fmt.Sprintf("block #%d %x: %v", bi.Number, bi.Hash[:6], err))
							return
						}
						simkit.Global.Inc("wire_roundtrips")
					}
					// database round trip: what rawdb returns for the hash is the same object
					stored := rawdb.ReadWorkObject(n.DBs[ctx], bi.ViewsNumber(ctx), bi.Hash, types.BlockObject)
					if stored == nil {
						fail("disk-roundtrip", fmt.Sprintf("object=workobject ctx=%d missing", ctx), fmt.Sprintf("block #%d %x cannot be read back from the ctx %d database", bi.Number, bi.Hash[:6], ctx))
						return
					}
					if stored.Hash() != bi.Hash || stored.Header().Hash() != v.Header().Hash() || len(stored.Transactions()) != len(v.Transactions()) || len(stored.OutboundEtxs()) != len(v.OutboundEtxs()) {
						fail("disk-roundtrip", fmt.Sprintf("object=workobject ctx=%d", ctx), fmt.Sprintf("block #%d read back from the ctx %d database differs: hash %x header %x", bi.Number, ctx, stored.Hash().Bytes()[:6], stored.Header().Hash().Bytes()[:6]))
						return
					}
					simkit.Global.Inc("disk_roundtrips")
				}
				if d := checkP2PFrames(bi); d != "" {
					fail("wire-roundtrip", "object="+strings.SplitN(d, ":", 2)[0], fmt.Sprintf("block #%d: %s", bi.Number, d))
					return
				}
				if d := checkTerminiAndBundles(n, bi); d != "" {
					fail("wire-roundtrip", "object="+strings.SplitN(d, ":", 2)[0], fmt.Sprintf("block #%d: %s", bi.Number, d))
					return
				}
				blk := bi.Views[common.ZONE_CTX]
				if blk == nil {
					return
				}
				// JSON form of the whole block
				js, err := json.Marshal(blk)
				if err == nil {
					var back types.WorkObject
					if err := json.Unmarshal(js, &back); err != nil {
						fail("json-roundtrip", "object=workobject unmarshal", fmt.Sprintf("block #%d: %v", bi.Number, err))
						return
					}
					if back.Hash() != blk.Hash() || back.Header().Hash() != blk.Header().Hash() {
						fail("json-roundtrip", "object=workobject hash", fmt.Sprintf("block #%d: hash %x -> %x, header hash %x -> %x", bi.Number, blk.Hash().Bytes()[:6], back.Hash().Bytes()[:6], blk.Header().Hash().Bytes()[:6], back.Header().Hash().Bytes()[:6]))
						return
					}
					simkit.Global.Inc("json_roundtrips")
				}
				// the JSON-RPC server's form (RPCMarshal...) decoded the way the client library does
				for _, ver := range []string{"v1", "v2"} {
					rjs, err := json.Marshal(blk.RPCMarshalWorkObject(ver))
					if err != nil {
						fail("json-roundtrip", "object=rpc-workobject marshal", fmt.Sprintf("block #%d: %v", bi.Number, err))
						return
					}
					var back types.WorkObject
					if err := json.Unmarshal(rjs, &back); err != nil {
						fail("json-roundtrip", "object=rpc-workobject unmarshal version="+ver, fmt.Sprintf("block #%d: %v", bi.Number, err))
						return
					}
					if back.Hash() != blk.Hash() || back.Header().Hash() != blk.Header().Hash() || len(back.Transactions()) != len(blk.Transactions()) {
						fail("json-roundtrip", "object=rpc-workobject hash version="+ver, fmt.Sprintf("block #%d: hash %x -> %x, header hash %x -> %x", bi.Number, blk.Hash().Bytes()[:6], back.Hash().Bytes()[:6], blk.Header().Hash().Bytes()[:6], back.Header().Hash().Bytes()[:6]))
						return
					}
					simkit.Global.Inc("rpc_json_roundtrips")
				}
				for i, tx := range append(append(types.Transactions{}, blk.Transactions()...), blk.OutboundEtxs()...) {
					if err := txRoundTrips(tx, LocZone); err != nil {
						fail("wire-roundtrip", fmt.Sprintf("object=tx type=%d path=%s", tx.Type(), strings.SplitN(err.Error(), ":", 2)[0]), fmt.Sprintf("block #%d item %d (%x): %v", bi.Number, i, tx.Hash().Bytes()[:6], err))
						return
					}
					simkit.Global.Inc("tx_roundtrips")
					if i%3 == int(bi.Number%3) && tx.Type() != types.ExternalTxType {
						vs := txPresenceVariants(tx, byte(i))
						hashes := map[common.Hash]int{tx.Hash(): -1}
						for vi, v := range vs {
							if err := txRoundTrips(v, LocZone); err != nil {
								fail("wire-roundtrip", fmt.Sprintf("object=tx type=%d work-fields=%03b path=%s", tx.Type(), vi+1, strings.SplitN(err.Error(), ":", 2)[0]), fmt.Sprintf("block #%d item %d with work fields present %03b (parent hash, mix hash, work nonce): %v", bi.Number, i, vi+1, err))
								return
							}
							if prev, dup := hashes[v.Hash()]; dup {
								fail("hash-identity", fmt.Sprintf("object=tx type=%d work-fields", tx.Type()), fmt.Sprintf("block #%d item %d: the copies with work-field presence %03b and %03b share the hash %x", bi.Number, i, prev+1, vi+1, v.Hash().Bytes()[:6]))
								return
							}
							hashes[v.Hash()] = vi
							simkit.Global.Inc("tx_presence_variants_roundtripped")
						}
					}
					simkit.Global.Seen("txkind", fmt.Sprintf("%d/%v", tx.Type(), func() any {
						if tx.Type() == types.ExternalTxType {
							return tx.EtxType()
						}
						return "-"
					}()))
				}
				// receipts read back from disk match the block
				if rs := n.Zone().GetReceiptsByHash(bi.Hash); len(rs) != len(blk.Transactions()) {
					fail("disk-roundtrip", "object=receipts count", fmt.Sprintf("block #%d has %d transactions, %d receipts read back", bi.Number, len(blk.Transactions()), len(rs)))
					return
				}
				if d := checkStoredReceipts(n, blk, bi, &bloomFinding); d != "" {
					fail("disk-roundtrip", "object=receipts "+strings.SplitN(d, ":", 2)[0], fmt.Sprintf("block #%d: %s", bi.Number, d))
					return
				}
				// identity: no two distinct headers of this run share a hash
				key := fmt.Sprintf("%x", blk.SealHash()) + fmt.Sprintf("%x", blk.WorkObjectHeader().Nonce())
				if prev, dup := seenHashes[bi.Hash]; dup && prev != key {
					fail("hash-identity", "two-objects-one-hash", fmt.Sprintf("block hash %x is shared by two different sealed headers", bi.Hash[:6]))
					return
				}
				seenHashes[bi.Hash] = key
			},
			ByzProps: map[string]bool{"C07": true, "C08": true, "C09": true},
			Byz: func(w *World, n *Node, m Mutation, out ByzOutcome) {
				// a block that differs from the honest candidate in a consensus field never shares its hash
				if out.Applied && out.HonestHash != (common.Hash{}) && out.Hash == out.HonestHash && len(m.Name) > 5 && m.Name[:5] != "body-" {
					fail("hash-identity", "mutation="+m.Name, fmt.Sprintf("the block rewritten by [%s] has the same hash %x as the honest candidate", m.Name, out.Hash[:6]))
				}
				simkit.Global.Inc("mutated_hashes_compared")
			},
		}
	})
}

// checkStoredReceipts reads the block's receipts through the database path (rawdb.ReadReceipts, which re-derives the
// contextual fields) and checks them against the block: consensus fields hash to the header's receipt root, contextual
// fields name the right transaction and block, log indices count block-wide, and each receipt survives its RLP and
// storage encodings. It returns "" or "<field>: detail".
func checkStoredReceipts(n *Node, blk *types.WorkObject, bi *BlockInfo, bloomFinding *string) string {
	rs := rawdb.ReadReceipts(n.DBs[common.ZONE_CTX], bi.Hash, bi.Number, params.Blake3PowLocalChainConfig)
	if rs == nil {
		if len(blk.Transactions()) == 0 {
			return ""
		}
		return "missing: rawdb.ReadReceipts returns nothing"
	}
	if len(rs) != len(blk.Transactions()) {
		return fmt.Sprintf("count: %d receipts for %d transactions", len(rs), len(blk.Transactions()))
	}
	if root := types.DeriveSha(rs, trie.NewStackTrie(nil)); root != blk.Header().ReceiptHash() {
		// attribution: the processor builds the receipts of inbound conversion / coinbase ETXs with a log but without a
		// bloom; the storage form does not keep the bloom and recomputes it from the logs when read back
		cp := make(types.Receipts, len(rs))
		n := 0
		for i, r := range rs {
			c := *r
			if c.Type == types.ExternalTxType && len(c.Logs) > 0 {
				c.Bloom = types.Bloom{}
				n++
			}
			cp[i] = &c
		}
		if n > 0 && types.DeriveSha(cp, trie.NewStackTrie(nil)) == blk.Header().ReceiptHash() {
			if *bloomFinding == "" { // reported once, at the end of the run: the remaining checks still apply
				*bloomFinding = fmt.Sprintf("block #%d: receipts read back hash to %x, header commits to %x; the header's root is that of the same receipts with an empty bloom on the %d inbound-ETX receipts that carry a log", bi.Number, root, blk.Header().ReceiptHash(), n)
			}
		} else {
			return fmt.Sprintf("receipt-root: receipts read back hash to %x, header commits to %x", root, blk.Header().ReceiptHash())
		}
	}
	logIndex, withLogs := uint(0), 0
	for i, r := range rs {
		tx := blk.Transactions()[i]
		switch {
		case r.TxHash != tx.Hash():
			return fmt.Sprintf("tx-hash: receipt %d names %x, transaction is %x", i, r.TxHash, tx.Hash())
		case r.Type != tx.Type():
			return fmt.Sprintf("type: receipt %d has type %d, transaction %d", i, r.Type, tx.Type())
		case r.BlockHash != bi.Hash || r.BlockNumber == nil || r.BlockNumber.Uint64() != bi.Number || r.TransactionIndex != uint(i):
			return fmt.Sprintf("position: receipt %d says block %x #%v index %d", i, r.BlockHash.Bytes()[:4], r.BlockNumber, r.TransactionIndex)
		}
		if len(r.Logs) > 0 {
			withLogs++
		}
		for j, l := range r.Logs {
			if l.Index != logIndex {
				return fmt.Sprintf("log-index: log %d of receipt %d has index %d, it is log number %d of the block", j, i, l.Index, logIndex)
			}
			if l.TxHash != tx.Hash() || l.TxIndex != uint(i) || l.BlockHash != bi.Hash || l.BlockNumber != bi.Number {
				return fmt.Sprintf("log-position: log %d of receipt %d says tx %x index %d block %x #%d", j, i, l.TxHash.Bytes()[:4], l.TxIndex, l.BlockHash.Bytes()[:4], l.BlockNumber)
			}
			logIndex++
		}
		// consensus RLP form
		enc, err := rlp.EncodeToBytes(r)
		if err != nil {
			return fmt.Sprintf("rlp: receipt %d does not encode: %v", i, err)
		}
		var dec types.Receipt
		if err := rlp.DecodeBytes(enc, &dec); err != nil {
			return fmt.Sprintf("rlp: receipt %d does not decode: %v", i, err)
		}
		if dec.Status != r.Status || dec.CumulativeGasUsed != r.CumulativeGasUsed || dec.Bloom != r.Bloom || len(dec.Logs) != len(r.Logs) || len(dec.OutboundEtxs) != len(r.OutboundEtxs) {
			return fmt.Sprintf("rlp: receipt %d decodes to status %d gas %d logs %d etxs %d, was status %d gas %d logs %d etxs %d", i, dec.Status, dec.CumulativeGasUsed, len(dec.Logs), len(dec.OutboundEtxs), r.Status, r.CumulativeGasUsed, len(r.Logs), len(r.OutboundEtxs))
		}
		if enc2, _ := rlp.EncodeToBytes(&dec); !bytes.Equal(enc, enc2) {
			return fmt.Sprintf("rlp: receipt %d re-encodes differently", i)
		}
		for k, e := range r.OutboundEtxs {
			if dec.OutboundEtxs[k].Hash() != e.Hash() {
				return fmt.Sprintf("rlp: outbound ETX %d of receipt %d changes hash", k, i)
			}
		}
		simkit.Global.Inc("receipt_roundtrips")
	}
	if withLogs >= 2 {
		simkit.Global.Inc("probe.block_with_logs_in_two_receipts")
	}
	return ""
}

// checkTerminiAndBundles round-trips, through their wire encodings, the termini every context stored for the block and
// the pending-ETX bundle / rollup the dominant chains hold for it. Returns "" or "<object>: detail".
func checkTerminiAndBundles(n *Node, bi *BlockInfo) string {
	hashesEqual := func(a, b []common.Hash) bool {
		if len(a) != len(b) {
			return false
		}
		for i := range a {
			if a[i] != b[i] {
				return false
			}
		}
		return true
	}
	for ctx := bi.Order; ctx <= common.ZONE_CTX; ctx++ {
		t := rawdb.ReadTermini(n.DBs[ctx], bi.Hash)
		if t == nil {
			continue
		}
		raw, err := proto.MarshalOptions{Deterministic: true}.Marshal(t.ProtoEncode())
		if err != nil {
			return fmt.Sprintf("termini: ctx %d does not encode: %v", ctx, err)
		}
		pt := new(types.ProtoTermini)
		if err := proto.Unmarshal(raw, pt); err != nil {
			return fmt.Sprintf("termini: ctx %d does not unmarshal: %v", ctx, err)
		}
		var back types.Termini
		if err := back.ProtoDecode(pt); err != nil {
			return fmt.Sprintf("termini: ctx %d does not decode: %v", ctx, err)
		}
		if !hashesEqual(t.DomTermini(), back.DomTermini()) || !hashesEqual(t.SubTermini(), back.SubTermini()) {
			return fmt.Sprintf("termini: ctx %d changed in the round trip: dom %x -> %x, sub %x -> %x", ctx, t.DomTermini(), back.DomTermini(), t.SubTermini(), back.SubTermini())
		}
		if raw2, _ := (proto.MarshalOptions{Deterministic: true}).Marshal(back.ProtoEncode()); !bytes.Equal(raw, raw2) {
			return fmt.Sprintf("termini: ctx %d re-encodes differently", ctx)
		}
		simkit.Global.Inc("termini_roundtrips")
	}
	for _, ctx := range []int{common.REGION_CTX, common.PRIME_CTX} {
		pe := n.Cores[ctx].GetPendingEtxs(bi.Hash)
		if pe == nil {
			continue
		}
		ppe, err := pe.ProtoEncode()
		if err != nil {
			return fmt.Sprintf("pending-etxs: ctx %d does not encode: %v", ctx, err)
		}
		raw, _ := proto.MarshalOptions{Deterministic: true}.Marshal(ppe)
		p2 := new(types.ProtoPendingEtxs)
		if err := proto.Unmarshal(raw, p2); err != nil {
			return fmt.Sprintf("pending-etxs: ctx %d does not unmarshal: %v", ctx, err)
		}
		back := new(types.PendingEtxs)
		if err := back.ProtoDecode(p2, locOf(ctx)); err != nil {
			return fmt.Sprintf("pending-etxs: ctx %d does not decode: %v", ctx, err)
		}
		if back.Header == nil || back.Header.Hash() != pe.Header.Hash() || len(back.OutboundEtxs) != len(pe.OutboundEtxs) {
			return fmt.Sprintf("pending-etxs: ctx %d bundle of %d ETXs for %x came back as %d ETXs", ctx, len(pe.OutboundEtxs), bi.Hash[:4], len(back.OutboundEtxs))
		}
		for i, e := range pe.OutboundEtxs {
			if back.OutboundEtxs[i].Hash() != e.Hash() {
				return fmt.Sprintf("pending-etxs: ctx %d ETX %d changes hash in the round trip", ctx, i)
			}
			if d := txFieldDiff(e, back.OutboundEtxs[i]); d != "" {
				return fmt.Sprintf("pending-etxs: ctx %d ETX %d field %s differs after the round trip", ctx, i, d)
			}
		}
		if pe.IsValid(trie.NewStackTrie(nil)) != back.IsValid(trie.NewStackTrie(nil)) {
			return fmt.Sprintf("pending-etxs: ctx %d bundle validity changes in the round trip", ctx)
		}
		simkit.Global.Inc("pending_etx_bundle_roundtrips")
	}
	return ""
}

// p2pFrames builds the request / response frames of the peer protocol around block bi (request by hash and by number for
// each answer type; answers carrying the block view, the header view, a list of block views, the hash, and empty answers).
func p2pFrames(bi *BlockInfo) (names []string, frames [][]byte, err error) {
	v := bi.Views[common.ZONE_CTX]
	add := func(name string, raw []byte, e error) {
		if e != nil && err == nil {
			err = fmt.Errorf("%s: %v", name, e)
		}
		names, frames = append(names, name), append(frames, raw)
	}
	id := uint32(bi.Number)*7 + 1
	for i, want := range []interface{}{&types.WorkObjectBlockView{}, &types.WorkObjectHeaderView{}, []*types.WorkObjectBlockView{}, common.Hash{}} {
		raw, e := pb.EncodeQuaiRequest(id+uint32(i), LocZone, bi.Hash, want)
		add(fmt.Sprintf("request-by-hash-%d", i), raw, e)
		raw, e = pb.EncodeQuaiRequest(id+uint32(i), LocZone, new(big.Int).SetUint64(bi.Number), want)
		add(fmt.Sprintf("request-by-number-%d", i), raw, e)
	}
	raw, e := pb.EncodeQuaiResponse(id, LocZone, &types.WorkObjectBlockView{}, v.ConvertToBlockView())
	add("response-block", raw, e)
	raw, e = pb.EncodeQuaiResponse(id, LocZone, &types.WorkObjectHeaderView{}, v.ConvertToHeaderView())
	add("response-header", raw, e)
	raw, e = pb.EncodeQuaiResponse(id, LocZone, []*types.WorkObjectBlockView{}, []*types.WorkObjectBlockView{v.ConvertToBlockView(), v.ConvertToBlockView()})
	add("response-blocks", raw, e)
	raw, e = pb.EncodeQuaiResponse(id, LocZone, &common.Hash{}, bi.Hash)
	add("response-hash", raw, e)
	raw, e = pb.EncodeQuaiResponse(id, LocZone, &types.WorkObjectBlockView{}, nil)
	add("response-empty", raw, e)
	return
}

// checkP2PFrames: every frame decodes to what was put in (id, location, selector, payload with equal hash).
func checkP2PFrames(bi *BlockInfo) string {
	names, frames, err := p2pFrames(bi)
	if err != nil {
		return "p2p-frame: does not encode: " + err.Error()
	}
	for i, raw := range frames {
		msg, err := pb.DecodeQuaiMessage(raw)
		if err != nil {
			return fmt.Sprintf("p2p-frame: %s does not decode: %v", names[i], err)
		}
		switch {
		case msg.GetRequest() != nil:
			_, typ, loc, data, err := pb.DecodeQuaiRequest(msg.GetRequest())
			if err != nil || typ == nil || !loc.Equal(LocZone) {
				return fmt.Sprintf("p2p-frame: %s decodes to type %T location %v: %v", names[i], typ, loc, err)
			}
			switch d := data.(type) {
			case *common.Hash:
				if *d != bi.Hash {
					return fmt.Sprintf("p2p-frame: %s asks for %x, was built for %x", names[i], d[:6], bi.Hash[:6])
				}
			case *big.Int:
				if d.Uint64() != bi.Number {
					return fmt.Sprintf("p2p-frame: %s asks for number %v, was built for %d", names[i], d, bi.Number)
				}
			default:
				return fmt.Sprintf("p2p-frame: %s decodes to request data %T", names[i], data)
			}
		case msg.GetResponse() != nil:
			_, payload, err := pb.DecodeQuaiResponse(msg.GetResponse())
			if names[i] == "response-empty" {
				if err == nil {
					return "p2p-frame: an empty answer decodes to a payload"
				}
				continue
			}
			if err != nil {
				return fmt.Sprintf("p2p-frame: %s does not decode: %v", names[i], err)
			}
			switch x := payload.(type) {
			case *types.WorkObjectBlockView:
				if x.Hash() != bi.Hash || len(x.Transactions()) != len(bi.Views[common.ZONE_CTX].Transactions()) {
					return fmt.Sprintf("p2p-frame: %s carries block %x with %d transactions", names[i], x.Hash().Bytes()[:6], len(x.Transactions()))
				}
			case *types.WorkObjectHeaderView:
				if x.Hash() != bi.Hash {
					return fmt.Sprintf("p2p-frame: %s carries header %x", names[i], x.Hash().Bytes()[:6])
				}
			case []*types.WorkObjectBlockView:
				if len(x) != 2 || x[0].Hash() != bi.Hash || x[1].Hash() != bi.Hash {
					return fmt.Sprintf("p2p-frame: %s carries %d blocks", names[i], len(x))
				}
			case common.Hash:
				if x != bi.Hash {
					return fmt.Sprintf("p2p-frame: %s carries hash %x", names[i], x[:6])
				}
			default:
				return fmt.Sprintf("p2p-frame: %s decodes to %T", names[i], payload)
			}
		default:
			return fmt.Sprintf("p2p-frame: %s decodes to neither a request nor a response", names[i])
		}
		simkit.Global.Inc("p2p_frame_roundtrips")
	}
	return ""
}
