package chainsim

import (
	"bytes"
	"encoding/json"
	"fmt"
	"testing"

	"github.com/dominant-strategies/go-quai/common"
	"github.com/dominant-strategies/go-quai/core/rawdb"
	"github.com/dominant-strategies/go-quai/core/types"
	"google.golang.org/protobuf/proto"

	"verif/sim/simkit"
)

// wire round trip of a work object in one view: decode(encode(x)) has the same hash and re-encodes to identical bytes.
func woRoundTrip(b *types.WorkObject, view types.WorkObjectView, loc common.Location) error {
	pb, err := b.ProtoEncode(view)
	if err != nil {
		return fmt.Errorf("encode: %v", err)
	}
	raw, err := proto.MarshalOptions{Deterministic: true}.Marshal(pb)
	if err != nil {
		return fmt.Errorf("marshal: %v", err)
	}
	pb2 := new(types.ProtoWorkObject)
	if err := proto.Unmarshal(raw, pb2); err != nil {
		return fmt.Errorf("unmarshal: %v", err)
	}
	out := &types.WorkObject{}
	if err := out.ProtoDecode(pb2, loc, view); err != nil {
		return fmt.Errorf("decode: %v", err)
	}
	if out.Hash() != b.Hash() {
		return fmt.Errorf("hash %x -> %x", b.Hash().Bytes()[:6], out.Hash().Bytes()[:6])
	}
	pb3, err := out.ProtoEncode(view)
	if err != nil {
		return fmt.Errorf("re-encode: %v", err)
	}
	raw2, _ := proto.MarshalOptions{Deterministic: true}.Marshal(pb3)
	if !bytes.Equal(raw, raw2) {
		return fmt.Errorf("re-encoding differs (%d vs %d bytes)", len(raw), len(raw2))
	}
	if view == types.BlockObject {
		if out.Header().Hash() != b.Header().Hash() || out.SealHash() != b.SealHash() {
			return fmt.Errorf("header or seal hash changed")
		}
		if len(out.Transactions()) != len(b.Transactions()) || len(out.OutboundEtxs()) != len(b.OutboundEtxs()) || len(out.Uncles()) != len(b.Uncles()) {
			return fmt.Errorf("body lengths changed")
		}
		for i, tx := range b.Transactions() {
			if out.Transactions()[i].Hash() != tx.Hash() {
				return fmt.Errorf("tx %d hash changed", i)
			}
		}
	}
	return nil
}

func txRoundTrips(tx *types.Transaction, loc common.Location) error {
	pb, err := tx.ProtoEncode()
	if err != nil {
		return fmt.Errorf("proto encode: %v", err)
	}
	raw, _ := proto.MarshalOptions{Deterministic: true}.Marshal(pb)
	pb2 := new(types.ProtoTransaction)
	if err := proto.Unmarshal(raw, pb2); err != nil {
		return fmt.Errorf("proto unmarshal: %v", err)
	}
	out := new(types.Transaction)
	if err := out.ProtoDecode(pb2, loc); err != nil {
		return fmt.Errorf("proto decode: %v", err)
	}
	if out.Hash() != tx.Hash() {
		return fmt.Errorf("proto: hash %x -> %x", tx.Hash().Bytes()[:6], out.Hash().Bytes()[:6])
	}
	pb3, _ := out.ProtoEncode()
	raw2, _ := proto.MarshalOptions{Deterministic: true}.Marshal(pb3)
	if !bytes.Equal(raw, raw2) {
		return fmt.Errorf("proto: re-encoding differs")
	}
	// JSON (the RPC form)
	js, err := json.Marshal(tx)
	if err != nil {
		return fmt.Errorf("json marshal: %v", err)
	}
	var back types.Transaction
	if err := json.Unmarshal(js, &back); err != nil {
		return fmt.Errorf("json unmarshal: %v (%s)", err, string(js[:min(len(js), 200)]))
	}
	if back.Hash() != tx.Hash() {
		return fmt.Errorf("json: hash %x -> %x", tx.Hash().Bytes()[:6], back.Hash().Bytes()[:6])
	}
	js2, _ := json.Marshal(&back)
	if !bytes.Equal(js, js2) {
		return fmt.Errorf("json: re-encoding differs")
	}
	return nil
}

func TestC14(t *testing.T) {
	chainProperty(t, "C14", func(r *Runner, fail func(class, witness, detail string)) Hooks {
		seenHashes := map[common.Hash]string{}
		return Hooks{
			AfterHead: func(w *World, n *Node, bi *BlockInfo, reorg bool) {
				if reorg {
					return
				}
				for ctx := common.ZONE_CTX; ctx >= bi.Order; ctx-- {
					v := bi.Views[ctx]
					if v == nil {
						continue
					}
					for _, view := range []types.WorkObjectView{types.BlockObject, types.HeaderObject} {
						if err := woRoundTrip(v, view, locOf(ctx)); err != nil {
							fail("wire-roundtrip", fmt.Sprintf("object=workobject view=%d ctx=%d", view, ctx), fmt.Sprintf("block #%d %x: %v", bi.Number, bi.Hash[:6], err))
							return
						}
						simkit.Global.Inc("wire_roundtrips")
					}
					// database round trip: what rawdb returns for the hash is the same object
					stored := rawdb.ReadWorkObject(n.DBs[ctx], bi.ViewsNumber(ctx), bi.Hash, types.BlockObject)
					if stored == nil {
						fail("disk-roundtrip", fmt.Sprintf("object=workobject ctx=%d missing", ctx), fmt.Sprintf("block #%d %x cannot be read back from the ctx %d database", bi.Number, bi.Hash[:6], ctx))
						return
					}
					if stored.Hash() != bi.Hash || stored.Header().Hash() != v.Header().Hash() || len(stored.Transactions()) != len(v.Transactions()) || len(stored.OutboundEtxs()) != len(v.OutboundEtxs()) {
						fail("disk-roundtrip", fmt.Sprintf("object=workobject ctx=%d", ctx), fmt.Sprintf("block #%d read back from the ctx %d database differs: hash %x header %x", bi.Number, ctx, stored.Hash().Bytes()[:6], stored.Header().Hash().Bytes()[:6]))
						return
					}
					simkit.Global.Inc("disk_roundtrips")
				}
				blk := bi.Views[common.ZONE_CTX]
				if blk == nil {
					return
				}
				// JSON form of the whole block
				js, err := json.Marshal(blk)
				if err == nil {
					var back types.WorkObject
					if err := json.Unmarshal(js, &back); err != nil {
						fail("json-roundtrip", "object=workobject unmarshal", fmt.Sprintf("block #%d: %v", bi.Number, err))
						return
					}
					if back.Hash() != blk.Hash() || back.Header().Hash() != blk.Header().Hash() {
						fail("json-roundtrip", "object=workobject hash", fmt.Sprintf("block #%d: hash %x -> %x, header hash %x -> %x", bi.Number, blk.Hash().Bytes()[:6], back.Hash().Bytes()[:6], blk.Header().Hash().Bytes()[:6], back.Header().Hash().Bytes()[:6]))
						return
					}
					simkit.Global.Inc("json_roundtrips")
				}
				// the JSON-RPC server's form (RPCMarshal...) decoded the way the client library does
				for _, ver := range []string{"v1", "v2"} {
					rjs, err := json.Marshal(blk.RPCMarshalWorkObject(ver))
					if err != nil {
						fail("json-roundtrip", "object=rpc-workobject marshal", fmt.Sprintf("block #%d: %v", bi.Number, err))
						return
					}
					var back types.WorkObject
					if err := json.Unmarshal(rjs, &back); err != nil {
						fail("json-roundtrip", "object=rpc-workobject unmarshal version="+ver, fmt.Sprintf("block #%d: %v", bi.Number, err))
						return
					}
					if back.Hash() != blk.Hash() || back.Header().Hash() != blk.Header().Hash() || len(back.Transactions()) != len(blk.Transactions()) {
						fail("json-roundtrip", "object=rpc-workobject hash version="+ver, fmt.Sprintf("block #%d: hash %x -> %x, header hash %x -> %x", bi.Number, blk.Hash().Bytes()[:6], back.Hash().Bytes()[:6], blk.Header().Hash().Bytes()[:6], back.Header().Hash().Bytes()[:6]))
						return
					}
					simkit.Global.Inc("rpc_json_roundtrips")
				}
				for i, tx := range append(append(types.Transactions{}, blk.Transactions()...), blk.OutboundEtxs()...) {
					if err := txRoundTrips(tx, LocZone); err != nil {
						fail("wire-roundtrip", fmt.Sprintf("object=tx type=%d", tx.Type()), fmt.Sprintf("block #%d item %d (%x): %v", bi.Number, i, tx.Hash().Bytes()[:6], err))
						return
					}
					simkit.Global.Inc("tx_roundtrips")
					simkit.Global.Seen("txkind", fmt.Sprintf("%d/%v", tx.Type(), func() any {
						if tx.Type() == types.ExternalTxType {
							return tx.EtxType()
						}
						return "-"
					}()))
				}
				// receipts read back from disk match the block
				if rs := n.Zone().GetReceiptsByHash(bi.Hash); len(rs) != len(blk.Transactions()) {
					fail("disk-roundtrip", "object=receipts count", fmt.Sprintf("block #%d has %d transactions, %d receipts read back", bi.Number, len(blk.Transactions()), len(rs)))
					return
				}
				// identity: no two distinct headers of this run share a hash
				key := fmt.Sprintf("%x", blk.SealHash()) + fmt.Sprintf("%x", blk.WorkObjectHeader().Nonce())
				if prev, dup := seenHashes[bi.Hash]; dup && prev != key {
					fail("hash-identity", "two-objects-one-hash", fmt.Sprintf("block hash %x is shared by two different sealed headers", bi.Hash[:6]))
					return
				}
				seenHashes[bi.Hash] = key
			},
			ByzProps: map[string]bool{"C07": true, "C08": true, "C09": true},
			Byz: func(w *World, n *Node, m Mutation, out ByzOutcome) {
				// a block that differs from the honest candidate in a consensus field never shares its hash
				if out.Applied && out.HonestHash != (common.Hash{}) && out.Hash == out.HonestHash && len(m.Name) > 5 && m.Name[:5] != "body-" {
					fail("hash-identity", "mutation="+m.Name, fmt.Sprintf("the block rewritten by [%s] has the same hash %x as the honest candidate", m.Name, out.Hash[:6]))
				}
				simkit.Global.Inc("mutated_hashes_compared")
			},
		}
	})
}
