package chainsim

import (
	"encoding/binary"

	"bytes"
	"github.com/dominant-strategies/go-quai/crypto/multiset"
	"github.com/dominant-strategies/go-quai/ethdb"
	"github.com/dominant-strategies/go-quai/params"
	"github.com/dominant-strategies/go-quai/trie"
	"sort"

	"fmt"
	"github.com/dominant-strategies/go-quai/core/types"
	"math/big"
	"os"
	"strings"
	"testing"
	"testing/synctest"

	"github.com/dominant-strategies/go-quai/common"
	"github.com/dominant-strategies/go-quai/core/rawdb"
	"pgregory.net/rapid"

	"verif/sim/simkit"
)

func TestMain(m *testing.M) {
	code := m.Run()
	simkit.Global.Flush()
	os.Exit(code)
}

// inBubble runs f inside a synctest bubble and converts the end-of-bubble
// "deadlock" panic (node goroutines parked forever on their tickers) into a
// normal return. Any other panic propagates.
func inBubble(t *testing.T, f func()) {
	defer func() {
		if r := recover(); r != nil {
			if s := fmt.Sprint(r); len(s) >= 8 && s[:8] == "deadlock" {
				return
			}
			panic(r)
		}
	}()
	synctest.Test(t, func(*testing.T) { f() })
}

type runResult struct {
	fail           func() // non-nil: a violation to report outside the bubble
	fatal          string // non-empty: the node stopped itself (logger.Fatal) or panicked while processing honest input
	fatalStage     string
	prologueOwn    string // non-empty: the node rejected a block of its own during the (fixed, monitor-free) prologue
	prologueStage  string
	stats          map[string]int
	digest         string
	nOps           int
	blocks         int
	prologueBlocks int
	log            []string
}

// runChain executes tape on a fresh single-node world; hooks are built by mk.
func runChain(tt *testing.T, tr *simkit.Trace, cfg NodeConfig, regime Regime, tape []Op, mk func(r *Runner) Hooks) (res runResult) {
	return runChainP(tt, tr, cfg, regime, 0, tape, mk)
}

// Prologue returns the fixed op list that brings a fresh node into a state rich enough for the
// property workloads (variant 0: none; 1: past the controller kick-in with unlocked Qi outputs
// owned by harness keys, obtained through real Quai->Qi conversions).
func Prologue(variant int) []Op {
	if variant == 0 {
		return nil
	}
	var p []Op
	for i := 0; i < 3; i++ {
		p = append(p, Op{OpMine, 0, 0, i, 0})
	}
	for i := 0; i < 4; i++ {
		p = append(p, Op{OpConvert, i, i, 3 + i, 0})
	}
	for i := 0; i < 13; i++ {
		p = append(p, Op{OpMine, []int{0, 2, 1}[i%3], 0, i, 1})
	}
	if variant == 3 {
		// variant 3: a deployed owner contract and contract-held coinbase lockups of two epochs
		p = append(p, Op{OpDeploy, 0, 0, 0, 0}, Op{OpMine, 2, 0, 0, 0}, Op{OpMine, 2, 0, 1, 0}, Op{OpLockupMode, 1, 1, 0, 0})
		for i := 0; i < 12; i++ {
			p = append(p, Op{OpMine, []int{0, 2, 1}[i%3], i % 2, i, 2})
		}
		return p
	}
	if variant >= 2 {
		// variant 2: additionally fan one output out into many and create trimmable dust, then bury both a little
		p = append(p, Op{OpQiSpend, 0, 0, 2, 5}, Op{OpQiSpend, 1, 0, 3, 3}, Op{OpMine, 2, 0, 1, 2}, Op{OpMine, 2, 0, 2, 2}, Op{OpQiSpend, 3, 0, 3, 4}, Op{OpMine, 1, 0, 3, 2})
	}
	return p
}

func runChainP(tt *testing.T, tr *simkit.Trace, cfg NodeConfig, regime Regime, prologue int, tape []Op, mk func(r *Runner) Hooks) (res runResult) {
	restore := regime.Apply()
	defer restore()
	res.stats = map[string]int{}
	inBubble(tt, func() {
		w := NewWorld(nil, tr)
		n, err := w.AddNode(cfg)
		if err != nil {
			panic(fmt.Sprintf("harness: cannot start node: %v", err))
		}
		defer func() {
			w.StopAll()
			synctest.Wait()
			if cfg.CloseDB != nil {
				cfg.CloseDB()
			}
		}()
		r := &Runner{W: w, N: n, Head: w.Gen, Stats: res.stats}
		// every step hands the node honest input only (its own blocks, transactions of the harness clients, and byzantine
		// blocks inside their own guard): a node that stops itself or panics here is reported, not treated as harness trouble
		step := func(op Op, stage string) bool {
			ok := false
			if perr := guarded(func() error { ok = r.Step(op); return nil }); perr != nil {
				res.fatal, res.fatalStage = perr.Error(), stage+" op="+opKindNames[op.Kind]
				return false
			}
			return ok
		}
		r.Hooks.OwnBlockRejected = func(w *World, n *Node, bi *BlockInfo, stage string, err error) {
			res.prologueStage = stage
			res.prologueOwn = fmt.Sprintf("block #%d %x (order %d) built by the node's own worker during the prologue was rejected by the same node at %s: %v", bi.Number, bi.Hash[:6], bi.Order, stage, err)
		}
		for _, op := range Prologue(prologue) { // prologue runs without monitors
			if !step(op, "prologue") {
				if res.fatal != "" || res.prologueOwn != "" {
					return
				}
				panic("harness: prologue failed: " + fmt.Sprint(res.stats))
			}
		}
		r.Hooks = Hooks{}
		res.prologueBlocks = len(w.Tips)
		r.Hooks = mk(r)
		for _, op := range tape {
			tr.Event("op %s %d %d %d %d", opKindNames[op.Kind], op.A, op.B, op.C, op.D)
			res.nOps++
			if !step(op, "tape") || r.ended {
				break
			}
		}
		if res.fatal != "" {
			return
		}
		if r.Hooks.End != nil && !r.ended {
			r.Hooks.End(w)
		}
		res.blocks = len(w.Tips)
	})
	res.digest = tr.Digest()
	res.log = tr.Log
	return
}

type violation struct{ class, witness, detail string }

// chainCase is what every S5 property test draws.
type chainCase struct {
	Tape     []Op
	Prologue int
	Cfg      NodeConfig
	Regime   Regime
}

func drawCase(rt *rapid.T) chainCase {
	c := chainCase{}
	c.Prologue = rapid.SampledFrom([]int{0, 1, 1, 2, 2, 3}).Draw(rt, "prologue")
	c.Tape = DrawTape(rt, 6, 10)
	c.Cfg = DefaultNodeConfig("n0")
	c.Regime = DefaultRegime()
	if rapid.IntRange(0, 5).Draw(rt, "preSlipChangeFork") == 0 {
		c.Regime.ConversionSlipChangeBlock = 1 << 40 // the historic side of the conversion-discount fork
	}
	c.Cfg.IndexAddressUtxos = rapid.Bool().Draw(rt, "indexAddressUtxos")
	c.Cfg.MinerPreference = rapid.SampledFrom([]float64{0, 0.5, 1}).Draw(rt, "minerPreference")
	c.Cfg.CoinbaseLockup = uint8(rapid.IntRange(0, 3).Draw(rt, "coinbaseLockup"))
	return c
}

var runSeq int

func recordRun(res runResult, c chainCase) {
	g := simkit.Global
	runSeq++
	if d := os.Getenv("VERIF_TRACEDIR"); d != "" {
		os.WriteFile(fmt.Sprintf("%s/%04d.log", d, runSeq), []byte(strings.Join(res.log, "\n")+"\n"), 0o644)
	}
	g.Inc("runs")
	g.Add("ops", int64(res.nOps))
	g.Add("blocks", int64(res.blocks))
	for _, k := range SortedKeys(res.stats) {
		g.Add("stat."+k, int64(res.stats[k]))
	}
	g.Seen("trace", res.digest)
	if res.blocks-res.prologueBlocks >= 3 && res.nOps >= 6 {
		g.Seen("nontrivial", res.digest)
	}
	if res.stats["switch"] > 0 {
		g.Inc("fault.reorg")
	}
	g.Sample(map[string]any{"prologue": c.Prologue, "ops": renderTape(c.Tape), "blocks": res.blocks})
}

func renderTape(tape []Op) []string {
	out := make([]string, 0, len(tape))
	for _, o := range tape {
		out = append(out, fmt.Sprintf("%s(%d,%d,%d,%d)", opKindNames[o.Kind], o.A, o.B, o.C, o.D))
	}
	return out
}

// chainProperty is the common body of the S5 property tests.
func chainProperty(t *testing.T, prop string, mk func(r *Runner, fail func(class, witness, detail string)) Hooks) {
	chainPropertyCfg(t, prop, false, mk)
}

// chainPropertyCfg: with engines=true the zone database engine (memorydb / leveldb / pebble) is drawn per run.
func chainPropertyCfg(t *testing.T, prop string, engines bool, mk func(r *Runner, fail func(class, witness, detail string)) Hooks) {
	chainPropertyOpt(t, prop, engines, nil, mk)
}

// chainPropertyOpt: prologues, if non-nil, replaces the default prologue distribution.
func chainPropertyOpt(t *testing.T, prop string, engines bool, prologues []int, mk func(r *Runner, fail func(class, witness, detail string)) Hooks) {
	rapid.Check(t, func(rt *rapid.T) {
		defer simkit.EndOnKnown()
		c := drawCase(rt)
		if prologues != nil {
			c.Prologue = rapid.SampledFrom(prologues).Draw(rt, "prologueOverride")
		}
		if engines {
			eng := rapid.SampledFrom([]string{"memorydb", "leveldb", "pebble"}).Draw(rt, "zoneEngine")
			dir, err := os.MkdirTemp(scratchBase(), "chainsim-")
			if err != nil {
				panic(err)
			}
			defer os.RemoveAll(dir)
			inner := c.Cfg.OpenDB
			var zone *SimDisk
			c.Cfg.OpenDB = func(ctx int) ethdb.Database {
				if ctx != common.ZONE_CTX {
					return inner(ctx)
				}
				if zone == nil {
					d, err := openEngineDisk(eng, dir+"/zone", LocZone)
					if err != nil {
						panic("harness: cannot open " + eng + ": " + err.Error())
					}
					zone = d
				}
				return zone
			}
			c.Cfg.CloseDB = func() { // must run inside the bubble that opened the engine
				if zone != nil {
					zone.Database.Close()
					zone = nil
				}
			}
			simkit.Global.Seen("engine", eng)
			simkit.Global.Inc("engine." + eng)
		}
		tr := simkit.NewTrace()
		var v *violation
		res := runChainP(t, tr, c.Cfg, c.Regime, c.Prologue, c.Tape, func(r *Runner) Hooks {
			r.Regime = c.Regime
			return mk(r, func(class, witness, detail string) {
				if v == nil {
					v = &violation{class, witness, detail}
				}
				r.ended = true
			})
		})
		recordRun(res, c)
		NodeLog.Reset()
		if v == nil && res.fatal != "" {
			v = &violation{"node-stops-on-honest-input", "stage=" + res.fatalStage, "the node stopped itself (logger.Fatal) or panicked while processing honest input: " + res.fatal}
		}
		if v == nil && res.prologueOwn != "" {
			if prop != "C07" { // only C07 states that own blocks validate; for the others the run cannot be set up
				panic("harness: prologue failed: " + res.prologueOwn)
			}
			v = &violation{"own-block-rejected", "stage=" + res.prologueStage + " in=prologue", res.prologueOwn}
		}
		if v != nil {
			if simkit.Violation(rt, tr, prop, v.class, v.witness, fmt.Sprintf("%s\nprologue=%d tape=%v", v.detail, c.Prologue, renderTape(c.Tape))) {
				panic(simkit.KnownReached{})
			}
		}
	})
}

// ---------------------------------------------------------------- C06

func checkCommitments(n *Node, bi *BlockInfo, reorg bool, fail func(class, witness, detail string)) {
	hdr := n.Zone().GetHeaderByHash(bi.Hash)
	root, count, err := UtxoRootOfDB(n)
	if err != nil {
		fail("root-equals-scan", "scan-error", err.Error())
		return
	}
	size := rawdb.ReadUTXOSetSize(n.DBs[common.ZONE_CTX], bi.Hash)
	what := "after=append"
	if reorg {
		what = "after=reorg"
	}
	if root != hdr.UTXORoot() || count != size {
		// Attribute the discrepancy if it is exactly what one known mechanism produces: an output that this block
		// both spends and trims (TrimBlock reads the database, not the block's batch) is removed from the
		// multiset and subtracted from the size twice.
		cause := ""
		db := n.DBs[common.ZONE_CTX]
		spent, _ := rawdb.ReadSpentUTXOs(db, bi.Hash)
		trimmed, _ := rawdb.ReadTrimmedUTXOs(db, bi.Hash)
		isSpent := map[string]bool{}
		for _, sp := range spent {
			isSpent[fmt.Sprintf("%x:%d", sp.TxHash, sp.Index)] = true
		}
		adj := recomputeMultiset(n)
		both := 0
		for _, tr := range trimmed {
			if isSpent[fmt.Sprintf("%x:%d", tr.TxHash, tr.Index)] {
				adj.Remove(types.UTXOHash(tr.TxHash, tr.Index, tr.UtxoEntry).Bytes())
				both++
			}
		}
		if both > 0 && adj.Hash() == hdr.UTXORoot() && count == size+uint64(both) {
			cause = " cause=output-spent-and-trimmed-in-same-block"
		}
		if root != hdr.UTXORoot() {
			fail("root-equals-scan", what+" utxo-root"+cause, fmt.Sprintf("block #%d %x: header UTXORoot %x, multiset of stored ut+cl records %x (%d records, stored size %d; %d outputs both spent and trimmed by this block)", bi.Number, bi.Hash[:6], hdr.UTXORoot(), root, count, size, both))
		} else {
			fail("root-equals-scan", what+" set-size"+cause, fmt.Sprintf("block #%d: stored UTXO set size %d, records in db %d", bi.Number, size, count))
		}
		return
	}
	if _, err := n.Zone().StateAt(hdr.EVMRoot(), hdr.EtxSetRoot(), hdr.QuaiStateSize()); err != nil {
		fail("reopen-roots", what, fmt.Sprintf("state at header roots of #%d does not open: %v", bi.Number, err))
		return
	}
	if count > 0 {
		simkit.Global.Inc("probe.nonempty_utxo_set_checked")
	}
	if tr, err := rawdb.ReadTrimmedUTXOs(n.DBs[common.ZONE_CTX], bi.Hash); err == nil && len(tr) > 0 {
		simkit.Global.Inc("probe.block_trimmed_utxos")
	}
	simkit.Global.Inc("heads_checked")
}

func TestC06(t *testing.T) {
	chainPropertyCfg(t, "C06", true, func(r *Runner, fail func(class, witness, detail string)) Hooks {
		heads := 0
		return Hooks{AfterHead: func(w *World, n *Node, bi *BlockInfo, reorg bool) {
			checkCommitments(n, bi, reorg, fail)
			// the validator's verdict on a Qi transaction is a function of the transaction and the chain, not of what this node has
			// cached about it (two nodes must agree on every block)
			if heads++; !reorg && heads%4 == 0 {
				directQiVerdicts(n, heads+int(bi.Number), fail, "honest-spend", "merge-small-notes", "outputs-exceed-inputs", "dup-outpoint-in-one-tx")
			}
		}}
	})
}

// ---------------------------------------------------------------- C07 (own blocks validate)

func TestC07(t *testing.T) {
	chainProperty(t, "C07", func(r *Runner, fail func(class, witness, detail string)) Hooks {
		return Hooks{OwnBlockRejected: func(w *World, n *Node, bi *BlockInfo, stage string, err error) {
			blk := bi.Views[common.ZONE_CTX]
			kinds := map[string]bool{}
			if blk != nil {
				for _, tx := range blk.Transactions() {
					switch tx.Type() {
					case 0:
						kinds["quai"] = true
					case 1:
						kinds[fmt.Sprintf("etx%d", tx.EtxType())] = true
					case 2:
						kinds["qi"] = true
					}
				}
			}
			fail("own-block-rejected", "stage="+stage, fmt.Sprintf("block #%d %x (order %d, tx kinds %v) built by the node's own worker was rejected by the same node at %s: %v\nnodelog:\n%s", bi.Number, bi.Hash[:6], bi.Order, SortedKeys(kinds), stage, err, NodeLog.String()))
		}}
	})
}

// ---------------------------------------------------------------- C10 (reorg = state of the winning branch)

// lineOf returns the blocks from genesis (exclusive) to tip in ascending order.
func (w *World) lineOf(tip common.Hash) []*BlockInfo {
	var rev []*BlockInfo
	for h := tip; h != w.Gen; {
		b := w.Blocks[h]
		if b == nil {
			break
		}
		rev = append(rev, b)
		h = b.Parent
	}
	for i, j := 0, len(rev)-1; i < j; i, j = i+1, j-1 {
		rev[i], rev[j] = rev[j], rev[i]
	}
	return rev
}

func (w *World) maxNumber() uint64 {
	var m uint64
	for _, h := range w.Tips {
		if b := w.Blocks[h]; b.Number > m {
			m = b.Number
		}
	}
	return m
}

// knownIndexDuplicates attributes an address-index-only difference between image a (of node n, which reorganised) and
// image b to the known mechanism (same root cause as the C06 finding): a block that both spends and trims one output
// records it in its spent AND trimmed undo lists, so rolling it back re-adds the outpoint to the address index twice. It
// returns the cause token only if dropping exactly those duplicates from a makes the images equal.
func knownIndexDuplicates(w *World, n *Node, a, b map[string][]byte) string {
	if classifyDiff(a, b) != "[address-index]" {
		return ""
	}
	return dedupeIndexDuplicates(spentAndTrimmed(w, n), a, b)
}

// spentAndTrimmed lists the outpoints that some block of the run recorded both as spent and as trimmed (node n's records).
func spentAndTrimmed(w *World, n *Node) map[string]bool {
	both := map[string]bool{}
	db := n.DBs[common.ZONE_CTX]
	for _, h := range w.Tips {
		sp, _ := rawdb.ReadSpentUTXOs(db, h)
		trm, _ := rawdb.ReadTrimmedUTXOs(db, h)
		isSp := map[string]bool{}
		for _, x := range sp {
			isSp[fmt.Sprintf("%x:%d", x.TxHash, x.Index)] = true
		}
		for _, x := range trm {
			if k := fmt.Sprintf("%x:%d", x.TxHash, x.Index); isSp[k] {
				both[k] = true
			}
		}
	}
	return both
}

func dedupeIndexDuplicates(both map[string]bool, a, b map[string][]byte) string {
	if len(both) == 0 || classifyDiff(a, b) != "[address-index]" {
		return ""
	}
	a2 := map[string][]byte{}
	for k, v := range a {
		a2[k] = v
		if len(k) > 4 && k[:4] == "auwh" {
			var kept []string
			seen := map[string]bool{}
			for _, it := range strings.Split(string(v), ",") {
				parts := strings.SplitN(it, ":", 3)
				op := ""
				if len(parts) >= 2 {
					op = parts[0] + ":" + parts[1]
				}
				if both[op] && seen[it] {
					continue
				}
				seen[it] = true
				kept = append(kept, it)
			}
			a2[k] = []byte(strings.Join(kept, ","))
		}
	}
	if DiffImages(a2, b) == "[]" {
		return " cause=output-spent-and-trimmed-in-same-block"
	}
	return ""
}

// freshNodeOn builds a second node that only ever sees the line of tip.
func (w *World) freshNodeOn(cfg NodeConfig, tip common.Hash) (*Node, error) {
	cfg.Name = "ref"
	cfg.OpenDB = MemOpener()
	ref, err := StartNode(cfg)
	if err != nil {
		return nil, err
	}
	ref.Net = w
	synctest.Wait()
	for _, b := range w.lineOf(tip) {
		if err := w.Deliver(ref, b); err != nil {
			ref.Stop()
			return nil, fmt.Errorf("reference node: deliver #%d: %w", b.Number, err)
		}
		if err := w.SetHead(ref, b.Hash); err != nil {
			ref.Stop()
			return nil, fmt.Errorf("reference node: set head #%d: %w", b.Number, err)
		}
	}
	w.outbox = nil
	return ref, nil
}

func TestC10(t *testing.T) {
	chainPropertyCfg(t, "C10", true, func(r *Runner, fail func(class, witness, detail string)) Hooks {
		checks := 0
		reorged := false
		compare := func(w *World, n *Node, tip common.Hash, when string) {
			ref, err := w.freshNodeOn(n.Cfg, tip)
			if err != nil {
				// the line was accepted block by block by n; a fresh node refusing it is a divergence between nodes
				fail("refine-vs-fresh-node", when+" fresh-node-rejects-line", err.Error())
				return
			}
			defer ref.Stop()
			up := w.maxNumber()
			a, b := ChainStateImage(n, up), ChainStateImage(ref, up)
			if d := DiffImages(a, b); d != "[]" {
				cause := knownIndexDuplicates(w, n, a, b)
				fail("refine-vs-fresh-node", when+" differs="+classifyDiff(a, b)+cause, fmt.Sprintf("after switching to %x (#%d) the node's chain state differs from a node that followed that branch directly (left=reorged node, right=fresh node): %s", tip[:6], w.Blocks[tip].Number, d))
				return
			}
			simkit.Global.Inc("reorg_images_compared")
			simkit.Global.Add("reorg_image_keys", int64(len(a)))
		}
		return Hooks{
			AfterHead: func(w *World, n *Node, bi *BlockInfo, reorg bool) {
				if !reorg {
					return
				}
				reorged = true
				if checks < 2 {
					checks++
					compare(w, n, bi.Hash, "after=switch")
				}
			},
			End: func(w *World) {
				if reorged && r.Head != w.Gen {
					compare(w, r.N, r.Head, "after=end-of-run")
				}
			},
		}
	})
}

// ---------------------------------------------------------------- byzantine halves of C07 / C08 / C09

func byzHooks(prop string, fail func(class, witness, detail string)) (map[string]bool, func(w *World, n *Node, m Mutation, out ByzOutcome)) {
	props := map[string]bool{prop: true, "observe": true}
	return props, func(w *World, n *Node, m Mutation, out ByzOutcome) {
		if m.Prop == "observe" {
			if out.Accepted {
				simkit.Global.Inc("probe.observe_row_accepted." + m.Name)
			}
			return
		}
		if out.Accepted {
			fail("rewrite-accepted", "mutation="+m.Name, fmt.Sprintf("a block differing from the honest candidate only by [%s] (resealed=%v) was appended and executed as head: %x", m.Name, m.Reseal, out.Hash[:6]))
			return
		}
		simkit.Global.Inc("byz_rejected")
		if out.TraceNote != "" {
			fail("rejected-block-left-trace", "mutation="+m.Name, fmt.Sprintf("the rejected block [%s] %x changed chain state: %s", m.Name, out.Hash[:6], out.TraceNote))
		}
	}
}

func TestC07Byz(t *testing.T) {
	chainProperty(t, "C07", func(r *Runner, fail func(class, witness, detail string)) Hooks {
		props, cb := byzHooks("C07", fail)
		return Hooks{ByzProps: props, Byz: cb}
	})
}

// checkDomNumbers: a dominant-order block extends its parent in every context it is coincident with. The view the region
// (and prime) chain accepted is copied, its number in that context is changed (+1, -1, 0, +1000), the copy is re-sealed to
// the same order and handed to that chain's header verification, which must refuse it; the unchanged copy must pass.
func checkDomNumbers(n *Node, bi *BlockInfo, fail func(class, witness, detail string)) {
	for ctx := bi.Order; ctx < common.ZONE_CTX; ctx++ {
		view := bi.Views[ctx]
		if view == nil {
			continue
		}
		hc := n.Cores[ctx].Slice().HeaderChain()
		control, err := roundTripBlock(view, locOf(ctx))
		if err != nil || hc.VerifyHeader(control) != nil {
			simkit.Global.Inc("dom_number_control_refused")
			continue
		}
		num := view.NumberU64(ctx)
		try := func(name string, seed uint64, mutate func(cp *types.WorkObject)) bool {
			cp, err := roundTripBlock(view, locOf(ctx))
			if err != nil {
				return true
			}
			mutate(cp)
			cp.WorkObjectHeader().SetHeaderHash(cp.Header().Hash())
			if err := Seal(cp, uint64(bi.Number)*7919+seed, 1<<17, func(wo *types.WorkObject) bool {
				_, o, e := n.Zone().CalcOrder(wo)
				return e == nil && o == bi.Order
			}); err != nil {
				simkit.Global.Inc("dom_number_reseal_failed")
				return true
			}
			simkit.Global.Inc("fault.byz.dom-" + name)
			if err := hc.VerifyHeader(cp); err == nil {
				fail("rewrite-accepted", fmt.Sprintf("mutation=%s[ctx%d] dom-header-verification", name, ctx), fmt.Sprintf("a copy of the order-%d block #%d with %s changed for context %d, re-sealed to the same order, passes the header verification of that context's chain", bi.Order, bi.Number, name, ctx))
				return false
			}
			return true
		}
		for _, nn := range []uint64{num + 1, num - 1, 0, num + 1000} {
			if nn == num {
				continue
			}
			nn := nn
			if !try("number", nn, func(cp *types.WorkObject) { cp.SetNumber(new(big.Int).SetUint64(nn), ctx) }) {
				return
			}
		}
		// the other fields the dominant chain derives from the parent (each is compared explicitly by that context's verification)
		rows := []struct {
			name string
			ctxs []int
			f    func(cp *types.WorkObject)
		}{
			{"parent-entropy", []int{0, 1}, func(cp *types.WorkObject) { cp.Header().SetParentEntropy(inc(cp.ParentEntropy(ctx)), ctx) }},
			{"parent-delta-entropy", []int{1}, func(cp *types.WorkObject) { cp.Header().SetParentDeltaEntropy(inc(cp.ParentDeltaEntropy(ctx)), ctx) }},
			{"parent-uncled-delta-entropy", []int{1}, func(cp *types.WorkObject) {
				cp.Header().SetParentUncledDeltaEntropy(inc(cp.ParentUncledDeltaEntropy(ctx)), ctx)
			}},
			{"region-state-root", []int{1}, func(cp *types.WorkObject) { cp.Header().SetRegionStateRoot(common.Hash{1}) }},
			{"prime-state-root", []int{0}, func(cp *types.WorkObject) { cp.Header().SetPrimeStateRoot(common.Hash{1}) }},
			{"efficiency-score", []int{0}, func(cp *types.WorkObject) { cp.Header().SetEfficiencyScore(cp.Header().EfficiencyScore() + 1) }},
			{"threshold-count", []int{0}, func(cp *types.WorkObject) { cp.Header().SetThresholdCount(cp.Header().ThresholdCount() + 1) }},
			{"etx-eligible-slices", []int{0}, func(cp *types.WorkObject) {
				h := cp.Header().EtxEligibleSlices()
				h[31] ^= 0x02
				cp.Header().SetEtxEligibleSlices(h)
			}},
			{"miner-difficulty", []int{0}, func(cp *types.WorkObject) { cp.Header().SetMinerDifficulty(inc(cp.Header().MinerDifficulty())) }},
		}
		for ri, row := range rows {
			applies := false
			for _, c := range row.ctxs {
				applies = applies || c == ctx
			}
			if !applies || (int(bi.Number)+ri)%3 != 0 { // a third of the rows per block
				continue
			}
			if !try(row.name, uint64(1000+ri), row.f) {
				return
			}
		}
	}
}

func TestC09(t *testing.T) {
	chainProperty(t, "C09", func(r *Runner, fail func(class, witness, detail string)) Hooks {
		props, cb := byzHooks("C09", fail)
		return Hooks{ByzProps: props, Byz: cb, AfterHead: func(w *World, n *Node, bi *BlockInfo, reorg bool) {
			if reorg {
				return
			}
			if bi.Order < common.ZONE_CTX {
				checkDomNumbers(n, bi, fail)
			}
			// entropy strictly increases along every accepted edge; recorded parent entropy == parent's accumulated entropy
			blk := n.Zone().GetBlockByHash(bi.Hash)
			parent := n.Zone().GetBlockByHash(bi.Parent)
			if blk == nil || parent == nil || bi.Parent == w.Gen {
				return
			}
			pe := n.Zone().TotalLogEntropy(parent)
			ce := n.Zone().TotalLogEntropy(blk)
			// accumulated entropy and the intrinsic entropy behind the order are functions of the block: asking again
			// (warm caches) must give the same answers
			for i := 0; i < 3; i++ {
				if again := n.Zone().TotalLogEntropy(blk); again.Cmp(ce) != 0 {
					fail("order-stable", "entropy-drifts-across-calls", fmt.Sprintf("#%d (%d uncles): TotalLogEntropy returned %v, then %v on call %d", bi.Number, len(blk.Uncles()), ce, again, i+2))
					return
				}
			}
			ie1, _, _ := n.Zone().CalcOrder(blk)
			ie1 = new(big.Int).Set(ie1)
			_ = n.Zone().TotalLogEntropy(blk)
			if ie2, _, _ := n.Zone().CalcOrder(blk); ie2.Cmp(ie1) != 0 {
				fail("order-stable", "intrinsic-entropy-drifts", fmt.Sprintf("#%d: CalcOrder's intrinsic entropy was %v and is %v after TotalLogEntropy was called", bi.Number, ie1, ie2))
				return
			}
			if len(blk.Uncles()) > 0 {
				simkit.Global.Inc("probe.entropy_checked_on_block_with_uncles")
			}
			if ce.Cmp(pe) <= 0 {
				fail("entropy-monotone", "edge", fmt.Sprintf("#%d entropy %v <= parent entropy %v", bi.Number, ce, pe))
				return
			}
			if blk.ParentEntropy(common.ZONE_CTX).Cmp(pe) != 0 {
				fail("entropy-monotone", "parent-entropy-field", fmt.Sprintf("#%d records parent entropy %v, parent's accumulated entropy is %v", bi.Number, blk.ParentEntropy(common.ZONE_CTX), pe))
				return
			}
			// order is a deterministic function of the block: recompute on a copy that bypasses the order cache key? same hash => same cache;
			// compare the order computed at mining time with a fresh computation now
			_, o2, err := n.Zone().CalcOrder(blk)
			if err != nil || o2 != bi.Order {
				fail("order-stable", "recalc", fmt.Sprintf("#%d order at mining %d, now %d (err %v)", bi.Number, bi.Order, o2, err))
			}
			// ... and of nothing else: not of what the node currently believes the tree's size to be, with a cold cache
			zhc := n.Zone().Slice().HeaderChain()
			was := zhc.GetExpansionNumber()
			for _, exp := range []uint8{was + 1, was + 3} {
				zhc.SetCurrentExpansionNumber(exp)
				zhc.VerifPurgeOrderCache()
				_, o3, err3 := zhc.CalcOrder(blk)
				zhc.SetCurrentExpansionNumber(was)
				zhc.VerifPurgeOrderCache()
				if err3 != nil || o3 != bi.Order {
					fail("order-stable", "depends-on-node-expansion-number", fmt.Sprintf("#%d (header expansion number %d) has order %d; with the node's current expansion number set to %d and a cold order cache it has order %d (err %v)", bi.Number, blk.ExpansionNumber(), bi.Order, exp, o3, err3))
					return
				}
			}
			simkit.Global.Inc("edges_checked")
		}}
	})
}

func TestC08(t *testing.T) {
	chainProperty(t, "C08", func(r *Runner, fail func(class, witness, detail string)) Hooks {
		props, cb := byzHooks("C08", fail)
		return Hooks{ByzProps: props, Byz: cb, AfterHead: func(w *World, n *Node, bi *BlockInfo, reorg bool) {
			if reorg {
				return
			}
			// pow-recomputed: the accepted block's hash, recomputed by the harness with blake3 directly, meets its declared difficulty
			blk := n.Zone().GetBlockByHash(bi.Hash)
			if blk == nil {
				return
			}
			h := blk.WorkObjectHeader()
			ph := powHash(h.SealHash(), h.MixHash(), h.Nonce())
			target := new(big.Int).Div(common.Big2e256, h.Difficulty())
			if ph != bi.Hash || new(big.Int).SetBytes(ph.Bytes()).Cmp(target) > 0 {
				fail("pow-recomputed", "accepted-block", fmt.Sprintf("#%d hash %x recomputed %x target %x", bi.Number, bi.Hash, ph, target))
			}
			simkit.Global.Inc("seals_recomputed")
			checkWorkShareVerdicts(n, h, bi, fail)
			checkSealCoverage(h, bi, fail)
		}}
	})
}

// checkSealCoverage: a seal found for one header must not fit a header that differs in any single consensus field. The
// accepted header is taken as is (pre-fork layout) and with its prime terminus moved past the KawPow fork and the
// share-accounting fields populated (post-fork layout); every field is changed alone and the seal hash must move.
func checkSealCoverage(h *types.WorkObjectHeader, bi *BlockInfo, fail func(class, witness, detail string)) {
	bump := func(v *big.Int) *big.Int { return new(big.Int).Add(v, common.Big1) }
	flip := func(x common.Hash) common.Hash { x[7] ^= 0x10; return x }
	type mut struct {
		name string
		f    func(w *types.WorkObjectHeader)
	}
	muts := []mut{
		{"headerHash", func(w *types.WorkObjectHeader) { w.SetHeaderHash(flip(w.HeaderHash())) }},
		{"parentHash", func(w *types.WorkObjectHeader) { w.SetParentHash(flip(w.ParentHash())) }},
		{"number", func(w *types.WorkObjectHeader) { w.SetNumber(bump(w.Number())) }},
		{"difficulty", func(w *types.WorkObjectHeader) { w.SetDifficulty(bump(w.Difficulty())) }},
		{"primeTerminusNumber", func(w *types.WorkObjectHeader) { w.SetPrimeTerminusNumber(bump(w.PrimeTerminusNumber())) }},
		{"txHash", func(w *types.WorkObjectHeader) { w.SetTxHash(flip(w.TxHash())) }},
		{"primaryCoinbase", func(w *types.WorkObjectHeader) {
			b := w.PrimaryCoinbase().Bytes20()
			b[19] ^= 1
			w.SetPrimaryCoinbase(common.Bytes20ToAddress(b, LocZone))
		}},
		{"location", func(w *types.WorkObjectHeader) { w.SetLocation(common.Location{0, 1}) }},
		{"lock", func(w *types.WorkObjectHeader) { w.SetLock(w.Lock() ^ 1) }},
		{"time", func(w *types.WorkObjectHeader) { w.SetTime(w.Time() + 1) }},
		{"data", func(w *types.WorkObjectHeader) { w.SetData(append(common.CopyBytes(w.Data()), 0x01)) }},
	}
	post := []mut{
		{"scryptDiffAndCount.difficulty", func(w *types.WorkObjectHeader) {
			d := w.ScryptDiffAndCount()
			w.SetScryptDiffAndCount(types.NewPowShareDiffAndCount(bump(d.Difficulty()), d.Count(), d.Uncled()))
		}},
		{"scryptDiffAndCount.count", func(w *types.WorkObjectHeader) {
			d := w.ScryptDiffAndCount()
			w.SetScryptDiffAndCount(types.NewPowShareDiffAndCount(d.Difficulty(), bump(d.Count()), d.Uncled()))
		}},
		{"scryptDiffAndCount.uncled", func(w *types.WorkObjectHeader) {
			d := w.ScryptDiffAndCount()
			w.SetScryptDiffAndCount(types.NewPowShareDiffAndCount(d.Difficulty(), d.Count(), bump(d.Uncled())))
		}},
		{"shaDiffAndCount.difficulty", func(w *types.WorkObjectHeader) {
			d := w.ShaDiffAndCount()
			w.SetShaDiffAndCount(types.NewPowShareDiffAndCount(bump(d.Difficulty()), d.Count(), d.Uncled()))
		}},
		{"shaDiffAndCount.count", func(w *types.WorkObjectHeader) {
			d := w.ShaDiffAndCount()
			w.SetShaDiffAndCount(types.NewPowShareDiffAndCount(d.Difficulty(), bump(d.Count()), d.Uncled()))
		}},
		{"shaDiffAndCount.uncled", func(w *types.WorkObjectHeader) {
			d := w.ShaDiffAndCount()
			w.SetShaDiffAndCount(types.NewPowShareDiffAndCount(d.Difficulty(), d.Count(), bump(d.Uncled())))
		}},
		{"shaShareTarget", func(w *types.WorkObjectHeader) { w.SetShaShareTarget(bump(w.ShaShareTarget())) }},
		{"scryptShareTarget", func(w *types.WorkObjectHeader) { w.SetScryptShareTarget(bump(w.ScryptShareTarget())) }},
		{"kawpowDifficulty", func(w *types.WorkObjectHeader) { w.SetKawpowDifficulty(bump(w.KawpowDifficulty())) }},
	}
	for _, layout := range []string{"pre-fork", "post-fork"} {
		base := types.CopyWorkObjectHeader(h)
		list := muts
		if layout == "post-fork" {
			base.SetPrimeTerminusNumber(new(big.Int).SetUint64(params.KawPowForkBlock + bi.Number))
			base.SetScryptDiffAndCount(types.NewPowShareDiffAndCount(big.NewInt(1000+int64(bi.Number)), big.NewInt(7), big.NewInt(3)))
			base.SetShaDiffAndCount(types.NewPowShareDiffAndCount(big.NewInt(2000+int64(bi.Number)), big.NewInt(9), big.NewInt(5)))
			base.SetShaShareTarget(big.NewInt(11))
			base.SetScryptShareTarget(big.NewInt(11)) // honest producers set both from the same call
			base.SetKawpowDifficulty(big.NewInt(4242))
			list = append(append([]mut{}, muts...), post...)
		} else if base.KawpowActivationHappened() {
			continue
		}
		ref := base.SealHash()
		for _, m := range list {
			c := types.CopyWorkObjectHeader(base)
			m.f(c)
			simkit.Global.Inc("seal_field_mutations")
			if c.SealHash() == ref {
				fail("seal-covers-content", "field="+m.name+" layout="+layout, fmt.Sprintf("header of #%d: changing only %s leaves the seal hash %x unchanged, so a seal found for one content fits the other", bi.Number, m.name, ref))
				return
			}
		}
	}
}

// checkWorkShareVerdicts re-seals copies of an accepted block's header with nonces whose proof-of-work hash falls
// (a) at or below the workshare target implied by the declared difficulty, 2^256/difficulty * 2^k with k the protocol's
// workshare threshold, and (b) just above it (within a factor of two and within a factor of 2^4), and asks the node to
// grade each as a workshare. (a) must be graded valid, (b) never.
func checkWorkShareVerdicts(n *Node, h *types.WorkObjectHeader, bi *BlockInfo, fail func(class, witness, detail string)) {
	if h.PrimeTerminusNumber().Uint64() >= params.KawPowForkBlock {
		return
	}
	blockTarget := new(big.Int).Div(common.Big2e256, h.Difficulty())
	shareTarget := new(big.Int).Lsh(blockTarget, uint(params.WorkSharesThresholdDiff))
	bands := []struct {
		name  string
		lo    *big.Int // exclusive
		hi    *big.Int // inclusive
		valid bool
	}{
		{"share-at-or-below-target", blockTarget, shareTarget, true},
		{"share-above-target-within-2x", shareTarget, new(big.Int).Lsh(shareTarget, 1), false},
		{"share-above-target-2x-to-16x", new(big.Int).Lsh(shareTarget, 1), new(big.Int).Lsh(shareTarget, 4), false},
	}
	seal, mix := h.SealHash(), h.MixHash()
	found := 0
	for i := uint64(0); i < 1<<14 && found != 1<<len(bands)-1; i++ {
		var nonce types.BlockNonce
		binary.BigEndian.PutUint64(nonce[:], binary.BigEndian.Uint64(bi.Hash[:8])+i)
		v := new(big.Int).SetBytes(powHash(seal, mix, nonce).Bytes())
		for bIdx, b := range bands {
			if found&(1<<bIdx) != 0 || v.Cmp(b.lo) <= 0 || v.Cmp(b.hi) > 0 {
				continue
			}
			found |= 1 << bIdx
			ws := types.CopyWorkObjectHeader(h)
			ws.SetNonce(nonce)
			got := n.Zone().CheckIfValidWorkShare(ws)
			simkit.Global.Inc("workshare_verdicts_" + b.name)
			if (got == types.Valid) != b.valid {
				fail("workshare-target", b.name, fmt.Sprintf("header of #%d re-sealed with nonce %x has pow hash %x, workshare target for difficulty %v is %x: graded %v", bi.Number, nonce, v, h.Difficulty(), shareTarget, got))
				return
			}
		}
	}
}

// ---------------------------------------------------------------- C04 (ETX exactly once, in order) — single slice

type etxKey struct {
	origin common.Hash
	index  uint16
}

// checkEtxHistory walks the canonical line of tip and checks the exactly-once / order / nothing-altered / liveness clauses.
func checkEtxHistory(w *World, n *Node, tip common.Hash, fail func(class, witness, detail string)) {
	line := w.lineOf(tip)
	type emitted struct {
		tx    *types.Transaction
		block uint64
		pos   int // global emission position along the line
	}
	em := map[etxKey]emitted{}
	pos := 0
	primeAfter := map[uint64]int{} // number of prime-order blocks strictly after zone height h
	primes := 0
	for i := len(line) - 1; i >= 0; i-- {
		primeAfter[line[i].Number] = primes
		if line[i].Order == common.PRIME_CTX {
			primes++
		}
	}
	included := map[etxKey]uint64{}
	delivered := map[etxKey]bool{}
	var queue []common.Hash // hashes of delivered-but-not-yet-executed ETXs, in the order the dominant chain delivered them
	for _, bi := range line {
		blk := n.Zone().GetBlockByHash(bi.Hash)
		if blk == nil {
			return
		}
		for _, tx := range blk.Transactions() {
			if tx.Type() != types.ExternalTxType {
				continue
			}
			k := etxKey{tx.OriginatingTxHash(), tx.ETXIndex()}
			if at, dup := included[k]; dup {
				fail("etx-exactly-once", "inbound-duplicate", fmt.Sprintf("ETX (origin %x index %d) executed at #%d and again at #%d", k.origin[:6], k.index, at, bi.Number))
				return
			}
			included[k] = bi.Number
			// FIFO: a block executes precisely the next items of the destination queue
			if len(queue) == 0 || queue[0] != tx.Hash() {
				fail("etx-order", "not-next-in-queue", fmt.Sprintf("block #%d executes ETX %x (origin %x index %d) which is not the next item of the inbound queue (queue length %d)", bi.Number, tx.Hash().Bytes()[:6], k.origin[:6], k.index, len(queue)))
				return
			}
			queue = queue[1:]
			simkit.Global.Inc("etx_delivered_checked")
		}
		for _, etx := range blk.OutboundEtxs() {
			k := etxKey{etx.OriginatingTxHash(), etx.ETXIndex()}
			if _, dup := em[k]; dup {
				fail("etx-exactly-once", "emitted-key-reused", fmt.Sprintf("block #%d emits a second ETX under (origin %x index %d)", bi.Number, k.origin[:6], k.index))
				return
			}
			em[k] = emitted{etx, bi.Number, pos}
			pos++
		}
		// what the dominant chain delivered with this block becomes available to its children
		for _, tx := range rawdb.ReadInboundEtxs(n.DBs[common.ZONE_CTX], bi.Hash) {
			k := etxKey{tx.OriginatingTxHash(), tx.ETXIndex()}
			e, ok := em[k]
			if !ok {
				fail("etx-exactly-once", "delivered-unknown", fmt.Sprintf("with dominant block #%d the zone received an ETX (origin %x index %d type %d) that no canonical zone block up to it emitted", bi.Number, k.origin[:6], k.index, tx.EtxType()))
				return
			}
			if delivered[k] {
				fail("etx-exactly-once", "delivered-twice", fmt.Sprintf("ETX (origin %x index %d) was delivered a second time with dominant block #%d", k.origin[:6], k.index, bi.Number))
				return
			}
			delivered[k] = true
			o := e.tx
			same := o.To() != nil && tx.To() != nil && o.To().Equal(*tx.To()) && o.ETXSender().Equal(tx.ETXSender()) && bytes.Equal(o.Data(), tx.Data())
			if types.IsConversionTx(o) {
				// protocol conversion repricing: the prime chain either reprices the value or, when the sender's slippage
				// bound is exceeded, turns the ETX into a refund (ConversionRevert) of exactly the original value
				switch tx.EtxType() {
				case types.ConversionType:
					simkit.Global.Inc("probe.conversion_repriced")
				case types.ConversionRevertType:
					same = same && o.Value().Cmp(tx.Value()) == 0
					simkit.Global.Inc("probe.conversion_reverted")
				default:
					same = false
				}
			} else {
				same = same && o.EtxType() == tx.EtxType() && o.Value().Cmp(tx.Value()) == 0 && o.Hash() == tx.Hash() && o.Gas() == tx.Gas()
			}
			if !same {
				fail("etx-altered", "type="+fmt.Sprint(o.EtxType()), fmt.Sprintf("ETX (origin %x index %d) emitted at #%d as {type %d to %x value %v gas %d} was delivered with #%d as {type %d to %x value %v gas %d}", k.origin[:6], k.index, e.block, o.EtxType(), o.To().Bytes()[:4], o.Value(), o.Gas(), bi.Number, tx.EtxType(), tx.To().Bytes()[:4], tx.Value(), tx.Gas()))
				return
			}
			queue = append(queue, tx.Hash())
		}
	}
	// liveness: an ETX emitted with >= 3 prime blocks after it on the line, the last of which is followed by >= 3 zone blocks, was executed
	if len(line) == 0 {
		return
	}
	tipNum := line[len(line)-1].Number
	var lastPrimeNum uint64
	for _, bi := range line {
		if bi.Order == common.PRIME_CTX {
			lastPrimeNum = bi.Number
		}
	}
	for _, k := range sortedEtxKeys(em) {
		e := em[k]
		if primeAfter[e.block] >= 3 && tipNum >= lastPrimeNum+3 {
			if _, ok := included[k]; !ok {
				fail("etx-liveness", "never-delivered", fmt.Sprintf("ETX (origin %x index %d type %d) emitted at #%d was never executed although %d prime blocks followed and the tip is #%d", k.origin[:6], k.index, e.tx.EtxType(), e.block, primeAfter[e.block], tipNum))
				return
			}
			simkit.Global.Inc("etx_liveness_checked")
		}
	}
}

func sortedEtxKeys[V any](m map[etxKey]V) []etxKey {
	ks := make([]etxKey, 0, len(m))
	for k := range m {
		ks = append(ks, k)
	}
	sort.Slice(ks, func(i, j int) bool {
		if c := bytes.Compare(ks[i].origin[:], ks[j].origin[:]); c != 0 {
			return c < 0
		}
		return ks[i].index < ks[j].index
	})
	return ks
}

func TestC04(t *testing.T) {
	chainProperty(t, "C04", func(r *Runner, fail func(class, witness, detail string)) Hooks {
		n := 0
		return Hooks{
			AfterHead: func(w *World, nd *Node, bi *BlockInfo, reorg bool) {
				n++
				if reorg || n%6 == 0 {
					checkEtxHistory(w, nd, bi.Hash, fail)
				}
				if n%5 == 2 {
					checkEtxQueueModel(nd, bi, fail)
				}
			},
			End: func(w *World) {
				if r.Head != w.Gen {
					checkEtxHistory(w, r.N, r.Head, fail)
				}
			},
			PreDeliver: func(w *World, nd *Node, bi *BlockInfo, blk *types.WorkObject, sel int) {
				forgePendingEtxs(w, nd, bi, blk, sel, fail)
			},
		}
	})
}

// checkEtxQueueModel drives the destination queue of the state under the new head (a private copy: nothing is committed)
// against a FIFO model: batches sized so that one of them straddles the next point where the queue index grows by a byte
// (255 -> 256), then everything is popped again. Every pushed ETX comes out exactly once, in order, and then the queue is empty.
func checkEtxQueueModel(n *Node, bi *BlockInfo, fail func(class, witness, detail string)) {
	hdr := n.Zone().GetHeaderByHash(bi.Hash)
	st, err := n.Zone().StateAt(hdr.EVMRoot(), hdr.EtxSetRoot(), hdr.QuaiStateSize())
	if err != nil {
		return
	}
	oldest, err1 := st.GetOldestIndex()
	newest, err2 := st.GetNewestIndex()
	if err1 != nil || err2 != nil || newest.Cmp(big.NewInt(60000)) > 0 {
		return
	}
	var model []common.Hash
	for i := new(big.Int).Set(oldest); i.Cmp(newest) < 0; i.Add(i, common.Big1) {
		e, err := st.ReadETX(i)
		if err != nil || e == nil {
			fail("etx-queue-model", "slot-unreadable", fmt.Sprintf("state of #%d: queue slot %v between oldest %v and newest %v cannot be read: %v", bi.Number, i, oldest, newest, err))
			return
		}
		model = append(model, e.Hash())
	}
	seq := 0
	mk := func() *types.Transaction {
		seq++
		to := qiAccounts[seq%len(qiAccounts)].Addr
		return types.NewTx(&types.ExternalTx{OriginatingTxHash: common.BigToHash(big.NewInt(int64(seq) + int64(bi.Number)<<20)), ETXIndex: uint16(seq), Gas: 21000, To: &to, Value: big.NewInt(int64(seq)), Sender: quaiAccounts[0].Addr, EtxType: types.DefaultType})
	}
	push := func(k int) bool {
		var batch []*types.Transaction
		for i := 0; i < k; i++ {
			e := mk()
			batch = append(batch, e)
			model = append(model, e.Hash())
		}
		if err := st.PushETXs(batch); err != nil {
			fail("etx-queue-model", "push-error", fmt.Sprintf("PushETXs of %d: %v", k, err))
			return false
		}
		return true
	}
	nw := int(newest.Int64())
	sizes := []int{3, 1}
	if nw < 250 {
		sizes = []int{253 - nw, 7, 2} // ends at 253, then 253..259 straddles the growth of the index to two bytes
	} else if nw < 256 {
		sizes = []int{256 - nw + 3, 2}
	}
	for _, k := range sizes {
		if !push(k) {
			return
		}
	}
	single := mk() // the one-at-a-time path
	if err := st.PushETX(single); err != nil {
		fail("etx-queue-model", "push-error", fmt.Sprintf("PushETX: %v", err))
		return
	}
	model = append(model, single.Hash())
	for i, want := range model {
		got, err := st.PopETX()
		if err != nil || got == nil {
			o2, _ := st.GetOldestIndex()
			n2, _ := st.GetNewestIndex()
			fail("etx-queue-model", "etx-lost", fmt.Sprintf("state of #%d: %d ETXs were queued (index %v..), the queue reports empty after %d pops (oldest=%v newest=%v, err %v)", bi.Number, len(model), oldest, i, o2, n2, err))
			return
		}
		if got.Hash() != want {
			fail("etx-queue-model", "etx-out-of-order", fmt.Sprintf("state of #%d: pop %d returned %x, the model expects %x", bi.Number, i, got.Hash().Bytes()[:6], want.Bytes()[:6]))
			return
		}
	}
	if extra, _ := st.PopETX(); extra != nil {
		fail("etx-queue-model", "etx-from-nothing", fmt.Sprintf("state of #%d: after popping everything that was queued the queue still returns %x", bi.Number, extra.Hash().Bytes()[:6]))
		return
	}
	simkit.Global.Inc("etx_queue_models_checked")
	if nw < 256 {
		simkit.Global.Inc("probe.etx_queue_index_growth_straddled")
	}
}

// forgePendingEtxs plays a peer that saw the sealed block before the node processed it and pushes a batch of
// "pending ETXs" for it that does not match the header's commitment at the dominant chains. Every such batch must be
// refused and must not shadow the genuine one (the history oracle then also sees that nothing is lost or altered).
func forgePendingEtxs(w *World, nd *Node, bi *BlockInfo, blk *types.WorkObject, sel int, fail func(class, witness, detail string)) {
	if sel/16 < 3 { // half of the mined blocks
		return
	}
	genuine := blk.OutboundEtxs()
	var forged types.Transactions
	var variant string
	alter := func(tx *types.Transaction) *types.Transaction {
		to := tx.To()
		return types.NewTx(&types.ExternalTx{OriginatingTxHash: tx.OriginatingTxHash(), ETXIndex: tx.ETXIndex(), Gas: tx.Gas(), To: to, Value: new(big.Int).Add(tx.Value(), big.NewInt(1)), Data: tx.Data(), AccessList: tx.AccessList(), Sender: tx.ETXSender(), EtxType: tx.EtxType()})
	}
	switch v := sel % 4; {
	case len(genuine) == 0:
		// a block that emitted nothing: a peer invents an ETX for it
		var prev *types.Transaction
		for _, b := range w.lineOf(bi.Parent) {
			if vb := b.Views[common.ZONE_CTX]; vb != nil && len(vb.OutboundEtxs()) > 0 {
				prev = vb.OutboundEtxs()[0]
				break
			}
		}
		if prev == nil {
			return
		}
		forged, variant = types.Transactions{prev}, "invented"
	case v == 0:
		forged, variant = types.Transactions{}, "emptied"
	case v == 1:
		forged, variant = append(types.Transactions{}, genuine[:len(genuine)-1]...), "truncated"
	case v == 2:
		forged = append(types.Transactions{}, genuine...)
		forged[0] = alter(forged[0])
		variant = "altered"
	default:
		forged, variant = append(append(types.Transactions{}, genuine...), genuine[0]), "duplicated"
	}
	for _, ctx := range []int{common.REGION_CTX, common.PRIME_CTX} {
		err := nd.Cores[ctx].AddPendingEtxs(types.PendingEtxs{Header: blk.ConvertToPEtxView(), OutboundEtxs: forged})
		simkit.Global.Inc("fault.forged_pending_etxs_" + variant)
		w.Tr.Event("forged pending etxs %s for %x at ctx %d: %v", variant, bi.Hash[:4], ctx, err)
		if err == nil {
			fail("nothing-altered", "forged-pending-etxs-accepted variant="+variant, fmt.Sprintf("ctx %d stored a batch of %d pending ETXs for block %x whose header commits to %d ETXs (%x)", ctx, len(forged), bi.Hash[:6], len(genuine), blk.OutboundEtxHash()))
			return
		}
		if got := nd.Cores[ctx].GetPendingEtxs(bi.Hash); got != nil && types.DeriveSha(got.OutboundEtxs, trie.NewStackTrie(nil)) != blk.OutboundEtxHash() {
			fail("nothing-altered", "forged-pending-etxs-stored variant="+variant, fmt.Sprintf("ctx %d serves %d pending ETXs for block %x, header commits to %d", ctx, len(got.OutboundEtxs), bi.Hash[:6], len(genuine)))
			return
		}
	}
}

// ---------------------------------------------------------------- C16 (one zone, one ledger, respected by state)

func checkScopes(n *Node, bi *BlockInfo, fail func(class, witness, detail string)) {
	hdr := n.Zone().GetHeaderByHash(bi.Hash)
	st, err := n.Zone().StateAt(hdr.EVMRoot(), hdr.EtxSetRoot(), hdr.QuaiStateSize())
	if err != nil {
		return
	}
	// The state trie is keyed by hashed addresses, so membership is probed for every address the run could have
	// touched that does NOT belong in this zone's account state: the Qi-ledger addresses used as conversion
	// recipients and coinbases, and foreign-zone twins of the harness accounts.
	var probes []common.AddressBytes
	for _, q := range qiAccounts {
		probes = append(probes, q.Addr.Bytes20())
	}
	probes = append(probes, n.Cfg.QiCoinbase.Bytes20())
	for _, qa := range quaiAccounts {
		f := qa.Addr.Bytes20()
		f[0] = 0x01 // zone 0-1
		probes = append(probes, f)
	}
	for _, p := range probes {
		loc := p.Location()
		inScope := loc != nil && loc.Equal(LocZone) && p.IsInQuaiLedgerScope()
		if inScope {
			continue
		}
		if st.Exist(common.InternalAddress(p)) {
			fail("state-scope", "out-of-scope-account-exists", fmt.Sprintf("state of zone 0-0 at #%d contains an account for %x (zone %v, qi-ledger %v)", bi.Number, p, loc, p.IsInQiLedgerScope()))
			return
		}
		simkit.Global.Inc("accounts_scope_checked")
	}
	for _, u := range ScanUtxos(n.DBs[common.ZONE_CTX]) {
		a := common.AddressBytes(u.Entry.Address)
		if loc := a.Location(); loc == nil || !loc.Equal(LocZone) || !a.IsInQiLedgerScope() {
			fail("utxo-scope", "owner-out-of-scope", fmt.Sprintf("UTXO %s at #%d is owned by %x which is not an in-zone Qi address", u.Key(), bi.Number, u.Entry.Address))
			return
		}
		simkit.Global.Inc("utxos_scope_checked")
	}
}

func TestC16(t *testing.T) {
	chainProperty(t, "C16", func(r *Runner, fail func(class, witness, detail string)) Hooks {
		addressTable(fail)
		simkit.Global.Inc("address_tables_checked")
		heads := 0
		return Hooks{End: func(w *World) {
			if fixedLocationFinding != "" {
				fail("address-classification", "path=location-less-decoders classified-as-zone-0-0", fixedLocationFinding)
			}
		}, AfterHead: func(w *World, n *Node, bi *BlockInfo, reorg bool) {
			checkScopes(n, bi, fail)
			// the validator's own Qi path (a block placed by a miner does not pass the pool): no UTXO for a Quai-ledger payee
			if heads++; !reorg && heads%3 == 0 {
				directQiVerdicts(n, heads+int(bi.Number), fail, "output-to-in-zone-quai-address", "honest-spend", "fork-sides")
			}
		}}
	})
}

func scratchBase() string {
	if d := os.Getenv("VERIF_SCRATCH"); d != "" {
		return d
	}
	if st, err := os.Stat("/dev/shm"); err == nil && st.IsDir() {
		return "/dev/shm"
	}
	return os.TempDir()
}

func recomputeMultiset(n *Node) *multiset.MultiSet {
	ms := multiset.New()
	db := n.DBs[common.ZONE_CTX]
	for _, u := range ScanUtxos(db) {
		ms.Add(types.UTXOHash(u.Hash, u.Index, u.Entry).Bytes())
	}
	keys, vals := ScanPrefix(db, rawdb.CoinbaseLockupPrefix)
	for i, k := range keys {
		if len(k) != rawdb.CoinbaseLockupKeyLength || len(vals[i]) < 38 {
			continue
		}
		owner, miner, lockupByte, epoch, err := rawdb.ReverseCoinbaseLockupKey([]byte(k), LocZone)
		if err != nil {
			continue
		}
		data := vals[i]
		delegate := common.Zero
		if len(data) == 58 {
			delegate = common.BytesToAddress(data[38:], LocZone)
		}
		ms.Add(types.CoinbaseLockupHash(owner, miner, delegate, lockupByte, epoch, new(big.Int).SetBytes(data[:32]), binary.BigEndian.Uint32(data[32:36]), binary.BigEndian.Uint16(data[36:38])).Bytes())
	}
	return ms
}
