package chainsim

import (
	"bytes"
	"encoding/binary"
	"fmt"
	"math/big"
	"sort"
	"strings"
	"testing/synctest"

	"github.com/dominant-strategies/go-quai/common"
	"github.com/dominant-strategies/go-quai/core/rawdb"
	"github.com/dominant-strategies/go-quai/core/types"
	"github.com/dominant-strategies/go-quai/crypto/multiset"
	"github.com/dominant-strategies/go-quai/params"
	"pgregory.net/rapid"

	"verif/sim/simkit"
)

// Op is one entry of an S5 tape; every field is a small integer interpreted
// modulo live state when the op executes.
type Op struct{ Kind, A, B, C, D int }

const (
	OpMine = iota
	OpTransfer
	OpConvert
	OpQiSpend
	OpRewind
	OpSwitch
	OpFill
	OpByz
	OpQiBurst
	OpDeploy
	OpLockupMode
	OpClaim
	numOpKinds
)

var opKindNames = []string{"mine", "transfer", "convert", "qispend", "rewind", "switch", "fill", "byz", "qiburst", "deploy", "lockupmode", "claim"}

// weighted kind table (index drawn uniformly)
var opKindTable = []int{OpMine, OpMine, OpMine, OpMine, OpMine, OpTransfer, OpTransfer, OpConvert, OpConvert, OpQiSpend, OpQiSpend, OpQiSpend, OpRewind, OpSwitch, OpFill, OpByz, OpByz, OpByz, OpQiBurst, OpDeploy, OpLockupMode, OpLockupMode, OpClaim, OpClaim}

var OpGen = rapid.Custom(func(t *rapid.T) Op {
	return Op{
		Kind: opKindTable[rapid.IntRange(0, len(opKindTable)-1).Draw(t, "kind")],
		A:    rapid.IntRange(0, 15).Draw(t, "a"),
		B:    rapid.IntRange(0, 15).Draw(t, "b"),
		C:    rapid.IntRange(0, 15).Draw(t, "c"),
		D:    rapid.IntRange(0, 15).Draw(t, "d"),
	}
})

func DrawTape(t *rapid.T, maxSeg, maxLen int) []Op {
	var tape []Op
	for _, seg := range rapid.SliceOfN(rapid.SliceOfN(OpGen, 1, maxLen), 1, maxSeg).Draw(t, "tape") {
		tape = append(tape, seg...)
	}
	return tape
}

// Hooks are the per-property monitors of a run.
type Hooks struct {
	// AfterHead runs after node n's head was (re)set to bi (mined or switched).
	AfterHead func(w *World, n *Node, bi *BlockInfo, reorg bool)
	// OwnBlockRejected is called when a block the node built itself was not accepted by it.
	OwnBlockRejected func(w *World, n *Node, bi *BlockInfo, stage string, err error)
	// TxBuilt sees every transaction the harness hands to a pool.
	TxBuilt func(w *World, tx *types.Transaction, flavour string, poolErr error)
	End     func(w *World)
	// PreDeliver runs after a block was sealed and before the node processes it; sel is tape-derived (0..95).
	PreDeliver func(w *World, n *Node, bi *BlockInfo, blk *types.WorkObject, sel int)
	// ByzProps selects which rows of the mutation table the byz op uses (nil: byz ops are skipped).
	ByzProps map[string]bool
	// Byz receives the outcome of every byzantine block presented to the node.
	Byz func(w *World, n *Node, m Mutation, out ByzOutcome)
}

// Runner interprets a tape on one node (w.Nodes[0]).
type Runner struct {
	W           *World
	N           *Node
	Head        common.Hash // harness's notion of the node's head
	Hooks       Hooks
	Stats       map[string]int
	ended       bool
	txSeq       int64
	qiFeeShapes map[string]bool
	// Contracts are the forwarder contracts the harness tried to deploy (address known at signing time).
	Contracts []common.Address
	// MinerDataFaults lets OpLockupMode also choose header data no stock miner produces (C13 only).
	MinerDataFaults bool
	// LockupMode is the (lockup byte, contract or nil) the miner currently asks for.
	LockByte     uint8
	LockContract *common.Address
	Regime       Regime
}

var transferValues = []*big.Int{big.NewInt(1), big.NewInt(1e9), new(big.Int).Mul(big.NewInt(3), big.NewInt(params.Ether)), new(big.Int).Mul(big.NewInt(50), big.NewInt(params.Ether))}

func (r *Runner) inc(k string) { r.Stats[k]++ }

// gasPrice returns a price no two transactions of a run share: the worker breaks price ties by
// map iteration order, which the simulator cannot steer, so the harness never creates a tie.
func (r *Runner) gasPrice(mult int64) *big.Int {
	bf := r.N.Zone().CurrentHeader().BaseFee()
	if bf == nil || bf.Sign() == 0 {
		bf = big.NewInt(1)
	}
	r.txSeq++
	return new(big.Int).Add(new(big.Int).Mul(bf, big.NewInt(mult)), big.NewInt(r.txSeq))
}

func (r *Runner) addTx(tx *types.Transaction, flavour string) {
	err := r.N.Zone().Slice().TxPool().AddRemote(tx) // remote: local txs enter the workshare broadcast set in map order, which would make block hashes irreproducible
	synctest.Wait()
	r.W.Tr.Event("tx %s hash=%x err=%v", flavour, tx.Hash().Bytes()[:6], err)
	if err == nil {
		r.inc("tx_accepted_by_pool." + flavour)
	} else {
		r.inc("tx_rejected_by_pool." + flavour)
	}
	if r.Hooks.TxBuilt != nil {
		r.Hooks.TxBuilt(r.W, tx, flavour, err)
	}
}

// Step executes one op. It returns false when the run cannot continue.
func (r *Runner) Step(op Op) bool {
	w, n := r.W, r.N
	switch op.Kind {
	case OpFill:
		if err := w.Fill(n); err != nil {
			w.Tr.Event("fill err=%v", err)
		}
	case OpByz:
		if r.Hooks.ByzProps == nil {
			return true
		}
		var rows []Mutation
		for _, m := range Mutations {
			if r.Hooks.ByzProps[m.Prop] {
				rows = append(rows, m)
			}
		}
		if len(rows) == 0 {
			return true
		}
		m := rows[(op.A*16+op.B)%len(rows)]
		out, err := w.Byzantine(n, r.Head, m, op.C, uint64(op.D)*7919+uint64(len(w.Tips))*104729)
		if err != nil {
			w.Tr.Event("byz %s harness-error %v", m.Name, err)
			r.inc("byz_harness_error")
			return false
		}
		w.Tr.Event("byz %s applied=%v appended=%v accepted=%v hash=%x", m.Name, out.Applied, out.Appended, out.Accepted, out.Hash[:6])
		if out.Applied {
			r.inc("byz_presented")
			simkit.Global.Inc("fault.byz." + m.Name)
			if r.Hooks.Byz != nil {
				r.Hooks.Byz(w, n, m, out)
			}
		}
	case OpTransfer:
		from := op.A % 4
		to := quaiAccounts[(from+1+op.B%3)%4].Addr
		nonce := n.Zone().Slice().TxPool().Nonce(quaiAccounts[from].Int)
		tx, err := w.QuaiTransfer(from, to, transferValues[op.C%len(transferValues)], r.gasPrice(int64(2+op.D%3)), 21000, nil, nonce)
		if err == nil {
			r.addTx(tx, "transfer")
		}
	case OpConvert:
		from := op.A % 4
		if op.A%2 == 0 {
			from = 7 // the dedicated converter
		}
		to := qiAccounts[op.B%len(qiAccounts)].Addr
		nonce := n.Zone().Slice().TxPool().Nonce(quaiAccounts[from].Int)
		val := new(big.Int).Mul(big.NewInt(int64(1+op.C%8)), new(big.Int).Mul(big.NewInt(200_000), big.NewInt(params.Ether)))
		var data []byte
		switch op.D % 4 {
		case 1:
			data = []byte{0x00, 0x1e} // the tightest slippage bound (MinSlip): refunded when the flow discount bites
		case 2:
			data = []byte{0x03, 0xe8} // 10 %
		case 3:
			data = []byte{0xff, 0xff} // beyond MaxSlip: clamped
		}
		tx, err := w.QuaiTransfer(from, to, val, r.gasPrice(2), 21000*5+uint64(op.D%3)*21000, data, nonce)
		if err == nil {
			r.addTx(tx, "convert")
		}
	case OpDeploy:
		if len(r.Contracts) >= 2 {
			return true
		}
		from := op.A % 4
		nonce := n.Zone().Slice().TxPool().Nonce(quaiAccounts[from].Int)
		tx, addr, err := w.DeployTx(from, nonce, r.gasPrice(3))
		if err == nil {
			r.addTx(tx, "deploy")
			r.Contracts = append(r.Contracts, addr)
			w.Tr.Event("deploy contract=%x", addr.Bytes()[:6])
		}
	case OpLockupMode:
		r.LockByte = uint8(op.A % 4)
		r.LockContract = nil
		if len(r.Contracts) > 0 && op.B%3 != 0 {
			c := r.Contracts[op.B%len(r.Contracts)]
			r.LockContract = &c
		}
		n.Zone().SetLockupByte(r.LockByte)
		n.Zone().Slice().VerifSetLockupContract(r.LockContract)
		stray := 0
		if r.MinerDataFaults {
			// a miner that assembles its own header data: 1..19 stray bytes after the lockup byte (neither the plain nor a
			// contract layout; the protocol declares such a reward lost)
			var extra []byte
			if op.C%4 == 3 {
				stray = 1 + op.D%19
				extra = make([]byte, stray)
				for i := range extra {
					extra[i] = byte(0xA0 + i)
				}
				simkit.Global.Inc("fault.miner_data_stray_bytes")
			}
			n.Zone().Slice().VerifSetMinerData(extra)
		}
		w.Tr.Event("lockupmode byte=%d contract=%v stray=%d", r.LockByte, r.LockContract != nil, stray)
	case OpClaim:
		if len(r.Contracts) == 0 {
			return true
		}
		c := r.Contracts[op.A%len(r.Contracts)]
		miner, to := n.Cfg.QuaiCoinbase, quaiAccounts[4].Addr
		if op.B%3 == 1 {
			miner, to = n.Cfg.QiCoinbase, qiAccounts[14].Addr
		}
		head := n.Zone().CurrentHeader().NumberU64(common.ZONE_CTX)
		latest := uint32(head/params.CoinbaseEpochBlocks) + 1
		epoch := uint32(1)
		if latest > 1 {
			epoch = 1 + uint32(op.D)%latest // sometimes the current (not yet claimable) epoch
		}
		lockByte := byte(op.C % 4)
		// three times out of four aim at a lockup that actually exists (whether or not it is claimable yet)
		if op.D%4 != 3 {
			keys, _ := ScanPrefix(n.DBs[common.ZONE_CTX], rawdb.CoinbaseLockupPrefix)
			var real []string
			for _, k := range keys {
				if len(k) == rawdb.CoinbaseLockupKeyLength {
					real = append(real, k)
				}
			}
			if len(real) > 0 {
				if oc, m, lb, ep, err := rawdb.ReverseCoinbaseLockupKey([]byte(real[(op.A+op.B)%len(real)]), LocZone); err == nil {
					miner, lockByte, epoch = m, lb, ep
					if op.C%5 != 4 {
						c = oc // otherwise: a contract that does not own the lockup tries to claim it
					}
					to = quaiAccounts[4].Addr
					if m.IsInQiLedgerScope() {
						to = qiAccounts[14].Addr
					}
				}
			}
		}
		from := op.A % 4
		nonce := n.Zone().Slice().TxPool().Nonce(quaiAccounts[from].Int)
		tx, err := w.ContractCallTx(from, c, ClaimInput(miner, to, lockByte, epoch, 30000), nonce, r.gasPrice(3), 400000)
		if err == nil {
			r.addTx(tx, "claim")
		}
	case OpQiSpend:
		r.qiSpend(op)
	case OpQiBurst:
		// many Qi->Quai conversions at once (each spends one distinct output): stresses the per-block ETX budgets of worker vs validator
		k := 8 + op.A%8
		for i := 0; i < k; i++ {
			r.qiSpend(Op{OpQiSpend, op.B + i, 0, 4, op.D}) // flavour index 4 = to-quai, one input
		}
	case OpMine:
		_ = w.Fill(n)
		cb := n.Cfg.QuaiCoinbase
		if op.B%3 == 1 {
			cb = n.Cfg.QiCoinbase
		}
		want := -1
		if op.A%4 != 3 {
			want = op.A % 4 // 0..2
		}
		w.PreDeliver = nil
		if r.Hooks.PreDeliver != nil {
			sel := op.B/3*16 + op.D
			w.PreDeliver = func(n *Node, bi *BlockInfo, blk *types.WorkObject) { r.Hooks.PreDeliver(w, n, bi, blk, sel) }
		}
		bi, err := w.Mine(n, cb, uint64(op.C)*104729+uint64(op.D)*7919+uint64(len(w.Tips))*15485863, want)
		if err != nil {
			if bi != nil && r.Hooks.OwnBlockRejected != nil {
				r.Hooks.OwnBlockRejected(w, n, bi, "submit/deliver", err)
			}
			w.Tr.Event("mine failed: %v", err)
			r.inc("mine_failed")
			return false
		}
		if !n.Appended(bi.Hash) {
			r.inc("own_block_not_appended")
			if r.Hooks.OwnBlockRejected != nil {
				r.Hooks.OwnBlockRejected(w, n, bi, "append", fmt.Errorf("block was not appended by its own node"))
			}
			return false
		}
		if err := w.SetHead(n, bi.Hash); err != nil {
			r.inc("own_block_sethead_failed")
			if r.Hooks.OwnBlockRejected != nil {
				r.Hooks.OwnBlockRejected(w, n, bi, "set-head", err)
			}
			w.Tr.Event("sethead on own block failed: %v", err)
			return false
		}
		r.Head = bi.Hash
		r.inc(fmt.Sprintf("mined_order%d", bi.Order))
		if r.Hooks.AfterHead != nil {
			r.Hooks.AfterHead(w, n, bi, false)
		}
	case OpRewind, OpSwitch:
		var target common.Hash
		if op.Kind == OpRewind {
			target = r.Head
			for i := 0; i <= op.A%3 && target != w.Gen; i++ {
				if b := w.Blocks[target]; b != nil {
					target = b.Parent
				}
			}
		} else if len(w.Tips) > 0 {
			target = w.Tips[(op.A*16+op.B)%len(w.Tips)]
		}
		if target == (common.Hash{}) || target == w.Gen || target == r.Head {
			return true
		}
		if err := w.SetHead(n, target); err != nil {
			w.Tr.Event("switch to %x failed: %v", target[:6], err)
			r.inc("switch_failed")
			// the node refused the reorg (e.g. beyond its horizon); head unchanged as far as the harness knows
			if cur := n.Zone().CurrentHeader().Hash(); cur != r.Head {
				r.Head = cur
			}
			return true
		}
		r.Head = target
		r.inc("switch")
		w.Tr.Event("switch head=%x", target[:6])
		if r.Hooks.AfterHead != nil {
			r.Hooks.AfterHead(w, n, w.Blocks[target], true)
		}
	}
	return true
}

func (r *Runner) qiSpend(op Op) {
	w, n := r.W, r.N
	utxos := ScanUtxos(n.DBs[common.ZONE_CTX])
	if len(utxos) == 0 {
		return
	}
	head := n.Zone().CurrentHeader().NumberU64(common.ZONE_CTX)
	flavours := []string{"honest", "honest", "fanout", "dust", "to-quai", "to-quai", "dup-in-tx", "locked", "wrong-key", "overspend", "dup-in-block"}
	fl := flavours[op.C%len(flavours)]
	var spendable, locked []Utxo
	for _, u := range utxos {
		if qiKeyByAddr == nil {
			registerQiKeys()
		}
		if len(qiKeyByAddr) == 0 {
			registerQiKeys()
		}
		if qiKeyByAddr[common.AddressBytes(u.Entry.Address)] == nil {
			continue
		}
		if u.Entry.Lock != nil && u.Entry.Lock.Uint64() > head+1 {
			locked = append(locked, u)
		} else {
			spendable = append(spendable, u)
		}
	}
	pool := spendable
	if fl == "locked" {
		pool = locked
	}
	if len(pool) == 0 {
		return
	}
	nIn := 1 + op.B%3
	var ins []Utxo
	for i := 0; i < nIn && i < len(pool); i++ {
		ins = append(ins, pool[(op.A+i*7)%len(pool)])
	}
	// dedupe (the modulo may pick one twice) unless the flavour wants a duplicate
	seen := map[string]bool{}
	var uniq []Utxo
	for _, u := range ins {
		if !seen[u.Key()] {
			seen[u.Key()] = true
			uniq = append(uniq, u)
		}
	}
	ins = uniq
	if fl == "dup-in-tx" {
		ins = append(ins, ins[0])
	}
	total := new(big.Int)
	for _, u := range ins {
		total.Add(total, types.Denominations[u.Entry.Denomination])
	}
	// fee: leave a fraction; outputs to fresh harness addresses not used as inputs
	fee := new(big.Int).Div(total, big.NewInt(int64(4+op.D%4)))
	if fee.Sign() == 0 {
		fee = big.NewInt(1)
	}
	outAmt := new(big.Int).Sub(total, fee)
	if fl == "overspend" {
		outAmt = new(big.Int).Add(total, types.Denominations[ins[0].Entry.Denomination])
	}
	maxOuts := 1 + op.D%4
	if fl == "fanout" || fl == "dust" {
		maxOuts = 6 + op.D%6
	}
	var denoms []uint8
	if fl == "dust" && outAmt.Cmp(big.NewInt(2000)) > 0 {
		// small denominations (trimmable after the regime's trim depths) first, the rest in large ones
		for d := uint8(0); d <= types.MaxTrimDenomination && d < uint8(2+op.D%5); d++ {
			denoms = append(denoms, d)
			outAmt = new(big.Int).Sub(outAmt, types.Denominations[d])
		}
	}
	denoms = append(denoms, splitDenominations(outAmt, maxOuts-len(denoms))...)
	var data []byte
	convertTo := -1
	if fl == "to-quai" {
		// Qi->Quai conversion: the first output goes to an in-zone Quai address, data = 2-byte slip + 20-byte Qi refund address
		if len(denoms) == 0 {
			return
		}
		convertTo = op.A % 4
		denoms = denoms[:1]
	}
	used := map[common.AddressBytes]bool{}
	for _, u := range ins {
		used[common.AddressBytes(u.Entry.Address)] = true
	}
	var outs []types.TxOut
	ai := op.A
	for di, d := range denoms {
		if convertTo >= 0 && di == 0 {
			outs = append(outs, types.TxOut{Denomination: d, Address: quaiAccounts[6].Addr.Bytes()})
			continue
		}
		for k := 0; k < len(qiAccounts); k++ {
			a := qiAccounts[(ai+k)%len(qiAccounts)].Addr
			if !used[a.Bytes20()] {
				used[a.Bytes20()] = true
				outs = append(outs, types.TxOut{Denomination: d, Address: a.Bytes()})
				ai += k + 1
				break
			}
		}
	}
	if len(outs) == 0 {
		return
	}
	if convertTo >= 0 {
		for k := 0; k < len(qiAccounts); k++ {
			a := qiAccounts[(ai+k)%len(qiAccounts)].Addr
			if !used[a.Bytes20()] {
				data = append([]byte{byte(op.D % 3 * 2), byte(op.D % 4 * 60)}, a.Bytes()...)
				break
			}
		}
		if len(data) != 22 {
			return
		}
	}
	var tx *types.Transaction
	var err error
	if fl == "wrong-key" {
		wrong := qiAccounts[(op.A+3)%len(qiAccounts)].Key
		if qiKeyByAddr[common.AddressBytes(ins[0].Entry.Address)] == wrong {
			wrong = qiAccounts[(op.A+4)%len(qiAccounts)].Key
		}
		tx, err = BuildQiTx(ins, outs, data, []*ecdsaKey{wrong})
	} else {
		tx, err = BuildQiTx(ins, outs, data, nil)
	}
	if err != nil {
		w.Tr.Event("qi build err=%v", err)
		return
	}
	r.addTx(tx, "qi-"+fl)
	if fl == "dup-in-block" {
		// a second, different transaction naming the same first outpoint
		outs2 := []types.TxOut{outs[0]}
		if tx2, err := BuildQiTx(ins[:1], outs2, nil, nil); err == nil && tx2.Hash() != tx.Hash() {
			r.addTx(tx2, "qi-dup-in-block-2nd")
		}
	}
}

// ------------------------------------------------------------------ oracles shared by several properties

// UtxoRootOfDB recomputes the multiset hash and element count of exactly the
// "ut" and "cl" records stored in a zone database.
func UtxoRootOfDB(n *Node) (common.Hash, uint64, error) {
	db := n.DBs[common.ZONE_CTX]
	ms := multiset.New()
	var count uint64
	for _, u := range ScanUtxos(db) {
		ms.Add(types.UTXOHash(u.Hash, u.Index, u.Entry).Bytes())
		count++
	}
	keys, vals := ScanPrefix(db, rawdb.CoinbaseLockupPrefix)
	for i, k := range keys {
		if len(k) != rawdb.CoinbaseLockupKeyLength {
			continue
		}
		owner, miner, lockupByte, epoch, err := rawdb.ReverseCoinbaseLockupKey([]byte(k), LocZone)
		if err != nil {
			return common.Hash{}, 0, fmt.Errorf("bad lockup key %x: %v", k, err)
		}
		data := vals[i]
		if len(data) < 38 {
			return common.Hash{}, 0, fmt.Errorf("short lockup record %x", data)
		}
		amount := new(big.Int).SetBytes(data[:32])
		height := binary.BigEndian.Uint32(data[32:36])
		elements := binary.BigEndian.Uint16(data[36:38])
		delegate := common.Zero
		if len(data) == 58 {
			delegate = common.BytesToAddress(data[38:], LocZone)
		}
		ms.Add(types.CoinbaseLockupHash(owner, miner, delegate, lockupByte, epoch, amount, height, elements).Bytes())
		count++
	}
	return ms.Hash(), count, nil
}

// ChainStateImage is the byte image of the chain-state key space of a zone db
// that reorganisations and rejected blocks must leave exact (C07, C10).
func ChainStateImage(n *Node, upTo uint64) map[string][]byte {
	db := n.DBs[common.ZONE_CTX]
	img := map[string][]byte{}
	for _, pfx := range [][]byte{rawdb.UtxoPrefix, rawdb.CoinbaseLockupPrefix, rawdb.AddressUtxosPrefix} {
		ks, vs := ScanPrefix(db, pfx)
		for i, k := range ks {
			if len(k) == common.HashLength {
				continue // a hash-keyed trie node / code blob whose hash happens to start with the prefix bytes
			}
			img[k] = vs[i]
			if bytes.HasPrefix([]byte(k), rawdb.AddressUtxosWithoutHeightPrefix) && len(k) == len(rawdb.AddressUtxosWithoutHeightPrefix)+20 {
				// the per-address index is a list whose order depends on history: compare it as a set
				var addr [20]byte
				copy(addr[:], k[len(rawdb.AddressUtxosWithoutHeightPrefix):])
				ops, err := rawdb.ReadAddressUTXOs(db, addr)
				if err != nil {
					img[k] = []byte("undecodable: " + err.Error())
					continue
				}
				var items []string
				for _, o := range ops {
					items = append(items, fmt.Sprintf("%x:%d:%d:%v", o.TxHash, o.Index, o.Denomination, o.Lock))
				}
				sort.Strings(items)
				img[k] = []byte(strings.Join(items, ","))
			}
		}
	}
	for num := uint64(0); num <= upTo+2; num++ {
		h := rawdb.ReadCanonicalHash(db, num)
		if h != (common.Hash{}) {
			img[fmt.Sprintf("canon/%d", num)] = h.Bytes()
		}
	}
	img["head/block"] = rawdb.ReadHeadBlockHash(db).Bytes()
	img["head/header"] = rawdb.ReadHeadHeaderHash(db).Bytes()
	return img
}

func DiffImages(a, b map[string][]byte) string {
	var out []string
	for _, k := range SortedKeys(a) {
		if vb, ok := b[k]; !ok {
			out = append(out, fmt.Sprintf("only-left %x", k))
		} else if !bytes.Equal(a[k], vb) {
			if len(k) > 4 && k[:4] == "auwh" {
				out = append(out, fmt.Sprintf("differs %x left={%s} right={%s}", k, a[k], vb))
			} else {
				out = append(out, fmt.Sprintf("differs %x", k))
			}
		}
	}
	for _, k := range SortedKeys(b) {
		if _, ok := a[k]; !ok {
			if len(k) > 4 && k[:4] == "auwh" {
				out = append(out, fmt.Sprintf("only-right %x right={%s}", k, b[k]))
			} else {
				out = append(out, fmt.Sprintf("only-right %x", k))
			}
		}
	}
	if len(out) > 8 {
		out = append(out[:8], fmt.Sprintf("... %d more", len(out)-8))
	}
	return fmt.Sprint(out)
}

// classifyKey names the key space a differing key belongs to (stable witness token).
func classifyDiff(a, b map[string][]byte) string {
	kinds := map[string]bool{}
	note := func(k string) {
		switch {
		case len(k) >= 2 && k[:2] == "ut":
			kinds["utxo"] = true
		case len(k) >= 2 && k[:2] == "cl":
			kinds["lockup"] = true
		case len(k) >= 2 && k[:2] == "au":
			kinds["address-index"] = true
		case len(k) >= 5 && k[:5] == "canon":
			kinds["canonical"] = true
		default:
			kinds["head-pointer"] = true
		}
	}
	for k, va := range a {
		if vb, ok := b[k]; !ok || !bytes.Equal(va, vb) {
			note(k)
		}
	}
	for k := range b {
		if _, ok := a[k]; !ok {
			note(k)
		}
	}
	return fmt.Sprint(SortedKeys(kinds))
}

var _ = simkit.NewTrace
