package chainsim

import (
	"crypto/sha256"
	"encoding/hex"
	"fmt"
	"testing"
	"testing/synctest"
	"time"

	"github.com/dominant-strategies/go-quai/common"
	"github.com/dominant-strategies/go-quai/core"
	"github.com/dominant-strategies/go-quai/core/rawdb"
	"github.com/dominant-strategies/go-quai/core/types"
	"github.com/dominant-strategies/go-quai/ethdb"
)

type loopNet struct{ q []msg }
type msg struct {
	from  *Node
	ctx   int
	block *types.WorkObject
}

func (l *loopNet) Broadcast(from *Node, ctx int, b *types.WorkObject) {
	l.q = append(l.q, msg{from, ctx, b})
}

func TestSmoke(t *testing.T) {
	for i := 0; i < 3; i++ {
		start := time.Now()
		d := runSmoke(t, 20)
		t.Logf("digest %s in %v", d, time.Since(start))
	}
}

func runSmoke(t *testing.T, nblocks int) (digest string) {
	defer func() {
		if r := recover(); r != nil {
			if s, ok := r.(string); ok && len(s) > 8 && s[:8] == "deadlock" {
				return
			}
			t.Logf("recovered: %v", r)
		}
	}()
	synctest.Test(t, func(t *testing.T) {
		dbs := map[int]ethdb.Database{}
		cfg := NodeConfig{Name: "n0", Difficulty: 3000, TxPool: core.DefaultTxPoolConfig,
			QuaiCoinbase: common.HexToAddress("0x0000000000000000000000000000000000000001", LocZone),
			OpenDB: func(ctx int) ethdb.Database {
				if dbs[ctx] == nil {
					dbs[ctx] = rawdb.NewMemoryDatabase(quietLogger())
				}
				return dbs[ctx]
			}}
		cfg.TxPool.Journal = ""
		n, err := StartNode(cfg)
		if err != nil {
			t.Fatal(err)
		}
		net := &loopNet{}
		n.Net = net
		synctest.Wait()
		h := sha256.New()
		for i := 0; i < nblocks; i++ {
			ph, err := n.PendingWork(cfg.QuaiCoinbase)
			if err != nil {
				t.Fatalf("pending work: %v", err)
			}
			if err := Seal(ph, uint64(i)*1000003, 1<<22, nil); err != nil {
				t.Fatal(err)
			}
			blk, err := n.SubmitMined(ph)
			if err != nil {
				t.Fatalf("submit: %v", err)
			}
			synctest.Wait()
			_, order, _ := n.Zone().CalcOrder(blk)
			// deliver own broadcasts zone first
			q := net.q
			net.q = nil
			for c := 2; c >= 0; c-- {
				for _, m := range q {
					if m.ctx == c {
						n.Cores[c].WriteBlock(m.block)
						synctest.Wait()
					}
				}
			}
			heads := [3]*types.WorkObject{}
			for c := 0; c < 3; c++ {
				if c >= order {
					heads[c] = n.Cores[c].GetBlockByHash(blk.Hash())
					if heads[c] == nil {
						t.Fatalf("block %d order %d not in ctx %d", i, order, c)
					}
				} else {
					heads[c] = n.Cores[c].CurrentBlock()
				}
			}
			if err := n.UpdateHeads(heads[0], heads[1], heads[2]); err != nil {
				t.Fatalf("update heads: %v", err)
			}
			synctest.Wait()
			fmt.Fprintf(h, "%x %d %x|", blk.Hash(), order, n.Zone().CurrentHeader().EVMRoot())
		}
		t.Logf("heads %v", n.Heads())
		digest = hex.EncodeToString(h.Sum(nil)[:8])
		n.Stop()
	})
	return
}
