package chainsim

import (
	"encoding/binary"
	"fmt"
	"math/big"
	"testing"

	"github.com/dominant-strategies/go-quai/common"
	"github.com/dominant-strategies/go-quai/core/rawdb"
	"github.com/dominant-strategies/go-quai/core/types"
	"github.com/dominant-strategies/go-quai/params"

	"verif/sim/simkit"
)

// lockRec is the reference model of one contract-held lockup tranche.
type lockRec struct {
	Balance  *big.Int
	Unlock   uint32
	Elements uint16
}

type lockKey struct {
	contract, miner common.AddressBytes
	lockByte        byte
	epoch           uint32
}

func (k lockKey) String() string {
	return fmt.Sprintf("%x/%x/%d/%d", k.contract[:4], k.miner[:4], k.lockByte, k.epoch)
}

func scanLockups(n *Node) (map[lockKey]lockRec, error) {
	out := map[lockKey]lockRec{}
	keys, vals := ScanPrefix(n.DBs[common.ZONE_CTX], rawdb.CoinbaseLockupPrefix)
	for i, k := range keys {
		if len(k) != rawdb.CoinbaseLockupKeyLength {
			continue
		}
		owner, miner, lb, epoch, err := rawdb.ReverseCoinbaseLockupKey([]byte(k), LocZone)
		if err != nil || len(vals[i]) < 38 {
			return nil, fmt.Errorf("bad lockup record %x", k)
		}
		d := vals[i]
		out[lockKey{owner.Bytes20(), miner.Bytes20(), lb, epoch}] = lockRec{new(big.Int).SetBytes(d[:32]), binary.BigEndian.Uint32(d[32:36]), binary.BigEndian.Uint16(d[36:38])}
	}
	return out, nil
}

func copyLocks(m map[lockKey]lockRec) map[lockKey]lockRec {
	o := map[lockKey]lockRec{}
	for k, v := range m {
		o[k] = lockRec{new(big.Int).Set(v.Balance), v.Unlock, v.Elements}
	}
	return o
}

func TestC13(t *testing.T) {
	chainPropertyOpt(t, "C13", false, []int{1, 3, 3, 3}, func(r *Runner, fail func(class, witness, detail string)) Hooks {
		models := map[common.Hash]map[lockKey]lockRec{}
		coinbaseBal := map[common.Hash]*big.Int{}
		r.MinerDataFaults = true
		return Hooks{AfterHead: func(w *World, n *Node, bi *BlockInfo, reorg bool) {
			blk := n.Zone().GetBlockByHash(bi.Hash)
			if blk == nil {
				return
			}
			hdr := blk.Header()
			st, err := n.Zone().StateAt(hdr.EVMRoot(), hdr.EtxSetRoot(), hdr.QuaiStateSize())
			if err != nil {
				return
			}
			cbInt := quaiAccounts[5].Int
			coinbaseBal[bi.Hash] = st.GetBalance(cbInt)
			if reorg {
				// re-anchor the model on what is stored (the reorg itself is judged by C10)
				if cur, err := scanLockups(n); err == nil {
					models[bi.Hash] = cur
				}
				return
			}
			num := bi.Number
			parentModel, ok := models[bi.Parent]
			if !ok {
				if bi.Parent == w.Gen {
					parentModel = map[lockKey]lockRec{}
				} else if cur, err := scanLockups(n); err == nil {
					models[bi.Hash] = cur
					return
				}
			}
			model := copyLocks(parentModel)
			parentBlk := n.Zone().GetBlockByHash(bi.Parent)
			var parentState interface {
				GetCode(common.InternalAddress) []byte
				Exist(common.InternalAddress) bool
			}
			if parentBlk != nil && bi.Parent != w.Gen {
				if ps, err := n.Zone().StateAt(parentBlk.Header().EVMRoot(), parentBlk.Header().EtxSetRoot(), parentBlk.QuaiStateSize()); err == nil {
					parentState = ps
				}
			}
			epochNow := uint32(num/params.CoinbaseEpochBlocks) + 1
			emittedBy := map[common.Hash][]*types.Transaction{}
			for _, e := range blk.OutboundEtxs() {
				emittedBy[e.OriginatingTxHash()] = append(emittedBy[e.OriginatingTxHash()], e)
			}
			for _, tx := range blk.Transactions() {
				switch {
				case tx.Type() == types.ExternalTxType && types.IsCoinBaseTx(tx):
					data := tx.Data()
					if len(data) == 0 || int(data[0]) > len(params.LockupByteToBlockDepth)-1 {
						continue
					}
					lb := data[0]
					depth := params.LockupByteToBlockDepth[lb]
					value := params.CalculateCoinbaseValueWithLockup(tx.Value(), lb, num)
					if len(data) == 1+common.AddressLength+common.HashLength || len(data) == 1+2*common.AddressLength+common.HashLength {
						contract := common.BytesToAddress(data[1:21], LocZone)
						ci, err := contract.InternalAndQuaiAddress()
						if err != nil {
							continue
						}
						// a lockup is only recorded for a contract that already has code (otherwise the reward is lost by protocol)
						hasCode := st.GetCode(ci) != nil
						if parentState != nil {
							hasCode = parentState.GetCode(ci) != nil || hasCode
						}
						if !hasCode || num < params.CoinbaseLockupPrecompileKickInHeight {
							simkit.Global.Inc("probe.contract_coinbase_lost_no_code")
							continue
						}
						k := lockKey{contract.Bytes20(), tx.To().Bytes20(), lb, epochNow}
						unlock := num + depth
						rec, exists := model[k]
						if !exists {
							rec = lockRec{new(big.Int), uint32(unlock - unlock%params.CoinbaseEpochBlocks), 0}
						} else {
							simkit.Global.Inc("probe.lockup_accumulated")
						}
						rec.Balance = new(big.Int).Add(rec.Balance, value)
						rec.Elements++
						model[k] = rec
						simkit.Global.Inc("probe.contract_lockup_reward")
					} else if len(data) == 1+common.HashLength && tx.To().IsInQiLedgerScope() {
						// plain Qi reward: outputs minted under this ETX's hash, locked until exactly num+depth, worth at most the adjusted value
						total := new(big.Int)
						for _, u := range ScanUtxos(n.DBs[common.ZONE_CTX]) {
							if u.Hash != tx.Hash() {
								continue
							}
							total.Add(total, types.Denominations[u.Entry.Denomination])
							if u.Entry.Lock == nil || u.Entry.Lock.Uint64() != num+depth {
								fail("credit-ledger", "qi-coinbase-lock-height", fmt.Sprintf("block #%d: Qi reward output %s (lockup byte %d) is locked until %v, expected %d", num, u.Key(), lb, u.Entry.Lock, num+depth))
								return
							}
						}
						if total.Cmp(value) > 0 {
							fail("credit-ledger", "qi-coinbase-overpaid", fmt.Sprintf("block #%d: Qi reward ETX of adjusted value %v minted %v", num, value, total))
							return
						}
						simkit.Global.Inc("probe.qi_reward_checked")
					}
				case tx.Type() == types.QuaiTxType && tx.To() != nil && len(tx.Data()) == 53:
					// a claim call through a forwarder contract
					in := tx.Data()
					contract := *tx.To()
					k := lockKey{contract.Bytes20(), common.BytesToAddress(in[:20], LocZone).Bytes20(), in[40], binary.BigEndian.Uint32(in[41:45])}
					to := common.BytesToAddress(in[20:40], LocZone)
					var claimEtx *types.Transaction
					for _, e := range emittedBy[tx.Hash()] {
						if e.EtxType() == types.CoinbaseLockupType {
							claimEtx = e
						}
					}
					rec, exists := model[k]
					if claimEtx == nil {
						simkit.Global.Inc("probe.claim_refused")
						continue
					}
					simkit.Global.Inc("probe.claim_paid")
					switch {
					case !exists:
						fail("claim-once", "claim-of-nonexistent-lockup", fmt.Sprintf("block #%d: claim %s paid %v although no such lockup exists (claimed before, or never created)", num, k, claimEtx.Value()))
						return
					case uint64(rec.Unlock) > num:
						fail("claim-once", "claim-before-unlock", fmt.Sprintf("block #%d: claim %s paid although the tranche unlocks at %d", num, k, rec.Unlock))
						return
					case k.epoch >= epochNow:
						fail("claim-once", "claim-of-open-epoch", fmt.Sprintf("block #%d: claim %s paid although epoch %d is still accumulating", num, k, epochNow))
						return
					case claimEtx.Value().Cmp(rec.Balance) != 0:
						fail("claim-once", "claim-amount", fmt.Sprintf("block #%d: claim %s paid %v, accumulated balance is %v", num, k, claimEtx.Value(), rec.Balance))
						return
					case !claimEtx.To().Equal(to) || !claimEtx.ETXSender().Equal(contract):
						fail("claim-once", "claim-recipient", fmt.Sprintf("block #%d: claim %s paid to %x from %x", num, k, claimEtx.To().Bytes(), claimEtx.ETXSender().Bytes()))
						return
					}
					delete(model, k)
				}
			}
			models[bi.Hash] = model
			// the stored lockup ledger equals the model
			stored, err := scanLockups(n)
			if err != nil {
				fail("credit-ledger", "lockup-record-undecodable", err.Error())
				return
			}
			for k, m := range model {
				s, ok := stored[k]
				if !ok {
					fail("credit-ledger", "lockup-missing", fmt.Sprintf("after block #%d the lockup %s (model balance %v, %d elements) is not stored", num, k, m.Balance, m.Elements))
					return
				}
				if s.Balance.Cmp(m.Balance) != 0 || s.Unlock != m.Unlock || s.Elements != m.Elements {
					fail("credit-ledger", "lockup-differs", fmt.Sprintf("after block #%d lockup %s is stored as {%v unlock %d n %d}, rewards imply {%v unlock %d n %d}", num, k, s.Balance, s.Unlock, s.Elements, m.Balance, m.Unlock, m.Elements))
					return
				}
			}
			for k, s := range stored {
				if _, ok := model[k]; !ok {
					fail("credit-ledger", "lockup-from-nothing", fmt.Sprintf("after block #%d a lockup %s with balance %v is stored that no reward created (or a claimed one survived)", num, k, s.Balance))
					return
				}
			}
			simkit.Global.Inc("lockup_ledgers_compared")
			// plain locked Quai rewards become spendable exactly at their unlock height, once
			if prev, ok := coinbaseBal[bi.Parent]; ok {
				expect := new(big.Int)
				line := w.lineOf(bi.Hash)
				byNum := map[uint64]*BlockInfo{}
				for _, b := range line {
					byNum[b.Number] = b
				}
				for lbi, depth := range params.LockupByteToBlockDepth {
					if num <= depth {
						continue
					}
					src := byNum[num-depth]
					if src == nil {
						continue
					}
					sb := n.Zone().GetBlockByHash(src.Hash)
					if sb == nil {
						continue
					}
					for _, etx := range sb.Transactions() {
						if etx.Type() == types.ExternalTxType && types.IsCoinBaseTx(etx) && etx.To().Bytes20() == quaiAccounts[5].Addr.Bytes20() && len(etx.Data()) == 1+common.HashLength && int(etx.Data()[0]) == lbi {
							expect.Add(expect, params.CalculateCoinbaseValueWithLockup(etx.Value(), etx.Data()[0], num))
						}
					}
				}
				got := new(big.Int).Sub(coinbaseBal[bi.Hash], prev)
				if parentState != nil && !parentState.Exist(cbInt) && expect.Sign() > 0 && parentBlk != nil {
					fee := new(big.Int).Mul(new(big.Int).SetUint64(params.CallNewAccountGas(parentBlk.QuaiStateSize())), big.NewInt(params.InitialBaseFee))
					if expect.Cmp(fee) >= 0 {
						expect.Sub(expect, fee)
					} else {
						expect.SetInt64(0)
					}
				}
				if got.Cmp(expect) != 0 {
					fail("credit-ledger", "quai-reward-unlock", fmt.Sprintf("block #%d: the coinbase account's balance changed by %v, rewards unlocking at this height sum to %v", num, got, expect))
					return
				}
				if expect.Sign() > 0 {
					simkit.Global.Inc("probe.quai_reward_unlocked")
				}
			}
			// a workshare / uncle is included at most once per chain and is never a canonical block
			seen := map[common.Hash]uint64{}
			canon := map[common.Hash]bool{}
			for _, b := range w.lineOf(bi.Hash) {
				canon[b.Hash] = true
			}
			for _, b := range w.lineOf(bi.Hash) {
				cb := n.Zone().GetBlockByHash(b.Hash)
				if cb == nil {
					continue
				}
				for _, u := range cb.Uncles() {
					if at, dup := seen[u.Hash()]; dup {
						fail("share-once", "uncle-twice", fmt.Sprintf("workshare/uncle %x is included in #%d and again in #%d", u.Hash().Bytes()[:6], at, b.Number))
						return
					}
					if canon[u.Hash()] {
						fail("share-once", "canonical-block-as-uncle", fmt.Sprintf("canonical block %x is included as an uncle in #%d", u.Hash().Bytes()[:6], b.Number))
						return
					}
					seen[u.Hash()] = b.Number
					simkit.Global.Inc("probe.uncle_included")
				}
			}
		}}
	})
}
