package chainsim

import (
	"fmt"
	"math/big"
	"testing/synctest"

	"github.com/dominant-strategies/go-quai/common"
	"github.com/dominant-strategies/go-quai/core/types"
	"github.com/dominant-strategies/go-quai/trie"
)

// Mutation is one row of the byzantine rewrite table (DESIGN §2.7): a single
// change to an otherwise valid, freshly built zone block.
type Mutation struct {
	Name   string
	Prop   string // property whose statement names the field as committed/derived
	Reseal bool   // re-seal after the change (a byzantine miner with its own hash power)
	// Apply changes the block; returns false when not applicable to this block.
	Apply func(b *types.WorkObject, env *byzEnv) bool
}

type byzEnv struct {
	w      *World
	n      *Node
	parent *types.WorkObject
	arg    int
}

func flip(h common.Hash) common.Hash { h[7] ^= 0x40; return h }
func inc(x *big.Int) *big.Int        { return new(big.Int).Add(x, big.NewInt(1)) }

func rebuildBody(b *types.WorkObject, txs, etxs types.Transactions) {
	b.Body().SetTransactions(txs)
	b.Body().SetOutboundEtxs(etxs)
	if len(txs) == 0 {
		b.Header().SetTxHash(types.EmptyRootHash)
	} else {
		b.Header().SetTxHash(types.DeriveSha(txs, trie.NewStackTrie(nil)))
	}
	if len(etxs) == 0 {
		b.Header().SetOutboundEtxHash(types.EmptyRootHash)
	} else {
		b.Header().SetOutboundEtxHash(types.DeriveSha(etxs, trie.NewStackTrie(nil)))
	}
}

// Rows with Prop "observe" are fields no property statement names as committed or derived for a
// zone block (efficiency score, threshold count and eligible-slices are prime-level bookkeeping that
// zone validation does not derive); they are exercised and counted but never yield a verdict.
var Mutations = []Mutation{
	// ---- C07: declared results of execution
	{"gas-used+1", "C07", true, func(b *types.WorkObject, e *byzEnv) bool {
		b.Header().SetGasUsed(b.Header().GasUsed() + 1)
		return true
	}},
	{"evm-root", "C07", true, func(b *types.WorkObject, e *byzEnv) bool {
		b.Header().SetEVMRoot(flip(b.Header().EVMRoot()))
		return true
	}},
	{"utxo-root", "C07", true, func(b *types.WorkObject, e *byzEnv) bool {
		b.Header().SetUTXORoot(flip(b.Header().UTXORoot()))
		return true
	}},
	{"etx-set-root", "C07", true, func(b *types.WorkObject, e *byzEnv) bool {
		b.Header().SetEtxSetRoot(flip(b.Header().EtxSetRoot()))
		return true
	}},
	{"receipt-hash", "C07", true, func(b *types.WorkObject, e *byzEnv) bool {
		b.Header().SetReceiptHash(flip(b.Header().ReceiptHash()))
		return true
	}},
	{"outbound-etx-hash", "C07", true, func(b *types.WorkObject, e *byzEnv) bool {
		b.Header().SetOutboundEtxHash(flip(b.Header().OutboundEtxHash()))
		return true
	}},
	{"tx-hash", "C07", true, func(b *types.WorkObject, e *byzEnv) bool {
		b.Header().SetTxHash(flip(b.Header().TxHash()))
		return true
	}},
	{"state-used+1", "C07", true, func(b *types.WorkObject, e *byzEnv) bool {
		b.Header().SetStateUsed(b.Header().StateUsed() + 1)
		return true
	}},
	{"quai-state-size+1", "C07", true, func(b *types.WorkObject, e *byzEnv) bool {
		b.Header().SetQuaiStateSize(inc(b.Header().QuaiStateSize()))
		return true
	}},
	{"avg-tx-fees+1", "C07", true, func(b *types.WorkObject, e *byzEnv) bool {
		b.Header().SetAvgTxFees(inc(b.Header().AvgTxFees()))
		return true
	}},
	{"total-fees+1", "C07", true, func(b *types.WorkObject, e *byzEnv) bool {
		b.Header().SetTotalFees(inc(b.Header().TotalFees()))
		return true
	}},
	{"uncle-hash", "C07", true, func(b *types.WorkObject, e *byzEnv) bool {
		b.Header().SetUncleHash(flip(b.Header().UncleHash()))
		return true
	}},
	// ---- C07: body
	{"drop-last-tx", "C07", true, func(b *types.WorkObject, e *byzEnv) bool {
		txs := b.Transactions()
		if len(txs) == 0 {
			return false
		}
		rebuildBody(b, append(types.Transactions{}, txs[:len(txs)-1]...), b.OutboundEtxs())
		return true
	}},
	{"drop-first-tx", "C07", true, func(b *types.WorkObject, e *byzEnv) bool {
		txs := b.Transactions()
		if len(txs) == 0 {
			return false
		}
		rebuildBody(b, append(types.Transactions{}, txs[1:]...), b.OutboundEtxs())
		return true
	}},
	{"swap-txs", "C07", true, func(b *types.WorkObject, e *byzEnv) bool {
		txs := append(types.Transactions{}, b.Transactions()...)
		if len(txs) < 2 {
			return false
		}
		i := e.arg % (len(txs) - 1)
		if txs[i].Hash() == txs[i+1].Hash() {
			return false
		}
		txs[i], txs[i+1] = txs[i+1], txs[i]
		rebuildBody(b, txs, b.OutboundEtxs())
		return true
	}},
	{"duplicate-tx", "C07", true, func(b *types.WorkObject, e *byzEnv) bool {
		txs := append(types.Transactions{}, b.Transactions()...)
		if len(txs) == 0 {
			return false
		}
		txs = append(txs, txs[e.arg%len(txs)])
		rebuildBody(b, txs, b.OutboundEtxs())
		return true
	}},
	{"add-foreign-transfer", "C07", true, func(b *types.WorkObject, e *byzEnv) bool {
		from := e.arg % 4
		st, err := e.n.Zone().StateAt(e.parent.Header().EVMRoot(), e.parent.Header().EtxSetRoot(), e.parent.QuaiStateSize())
		if err != nil {
			return false
		}
		nonce := st.GetNonce(quaiAccounts[from].Int)
		price := new(big.Int).Mul(b.Header().BaseFee(), big.NewInt(3))
		tx, err := e.w.QuaiTransfer(from, quaiAccounts[(from+1)%4].Addr, big.NewInt(12345), price, 21000, nil, nonce)
		if err != nil {
			return false
		}
		rebuildBody(b, append(append(types.Transactions{}, b.Transactions()...), tx), b.OutboundEtxs())
		return true
	}},
	{"drop-outbound-etx", "C07", true, func(b *types.WorkObject, e *byzEnv) bool {
		etxs := b.OutboundEtxs()
		if len(etxs) == 0 {
			return false
		}
		rebuildBody(b, b.Transactions(), append(types.Transactions{}, etxs[:len(etxs)-1]...))
		return true
	}},
	{"alter-outbound-etx-value", "C07", true, func(b *types.WorkObject, e *byzEnv) bool {
		etxs := append(types.Transactions{}, b.OutboundEtxs()...)
		if len(etxs) == 0 {
			return false
		}
		i := e.arg % len(etxs)
		in, ok := etxs[i].Inner().(*types.ExternalTx)
		if !ok {
			return false
		}
		cp := *in
		cp.Value = inc(in.Value)
		etxs[i] = types.NewTx(&cp)
		rebuildBody(b, b.Transactions(), etxs)
		return true
	}},
	// ---- C07: body deviates from what the (unchanged, still validly sealed) header commits to
	{"body-strip-all-outbound-etxs", "C07", false, func(b *types.WorkObject, e *byzEnv) bool {
		if len(b.OutboundEtxs()) == 0 {
			return false
		}
		b.Body().SetOutboundEtxs(types.Transactions{})
		return true
	}},
	{"body-drop-one-outbound-etx", "C07", false, func(b *types.WorkObject, e *byzEnv) bool {
		etxs := b.OutboundEtxs()
		if len(etxs) < 2 {
			return false
		}
		b.Body().SetOutboundEtxs(append(types.Transactions{}, etxs[1:]...))
		return true
	}},
	{"body-strip-all-txs", "C07", false, func(b *types.WorkObject, e *byzEnv) bool {
		if len(b.Transactions()) == 0 {
			return false
		}
		b.Body().SetTransactions(types.Transactions{})
		return true
	}},
	{"body-drop-one-tx", "C07", false, func(b *types.WorkObject, e *byzEnv) bool {
		txs := b.Transactions()
		if len(txs) < 2 {
			return false
		}
		b.Body().SetTransactions(append(types.Transactions{}, txs[:len(txs)-1]...))
		return true
	}},
	{"body-strip-uncles", "C07", false, func(b *types.WorkObject, e *byzEnv) bool {
		if len(b.Uncles()) == 0 {
			return false
		}
		b.Body().SetUncles(nil)
		return true
	}},
	// ---- C09: fields derived from the parent
	{"number+1", "C09", true, func(b *types.WorkObject, e *byzEnv) bool {
		b.SetNumber(inc(b.Number(common.ZONE_CTX)), common.ZONE_CTX)
		b.WorkObjectHeader().SetNumber(b.Number(common.ZONE_CTX))
		return true
	}},
	{"difficulty+1", "C09", true, func(b *types.WorkObject, e *byzEnv) bool {
		b.WorkObjectHeader().SetDifficulty(inc(b.Difficulty()))
		return true
	}},
	{"difficulty-1", "C09", true, func(b *types.WorkObject, e *byzEnv) bool {
		b.WorkObjectHeader().SetDifficulty(new(big.Int).Sub(b.Difficulty(), big.NewInt(1)))
		return true
	}},
	{"gas-limit+1", "C09", true, func(b *types.WorkObject, e *byzEnv) bool { b.Header().SetGasLimit(b.GasLimit() + 1); return true }},
	{"state-limit+1", "C09", true, func(b *types.WorkObject, e *byzEnv) bool {
		b.Header().SetStateLimit(b.Header().StateLimit() + 1)
		return true
	}},
	{"base-fee+1", "C09", true, func(b *types.WorkObject, e *byzEnv) bool { b.Header().SetBaseFee(inc(b.BaseFee())); return true }},
	{"prime-terminus-hash", "C09", true, func(b *types.WorkObject, e *byzEnv) bool {
		b.Header().SetPrimeTerminusHash(flip(b.PrimeTerminusHash()))
		return true
	}},
	{"prime-terminus-number+1", "C09", true, func(b *types.WorkObject, e *byzEnv) bool {
		b.WorkObjectHeader().SetPrimeTerminusNumber(inc(b.PrimeTerminusNumber()))
		return true
	}},
	{"expansion-number+1", "C09", true, func(b *types.WorkObject, e *byzEnv) bool {
		b.Header().SetExpansionNumber(b.Header().ExpansionNumber() + 1)
		return true
	}},
	{"parent-entropy+1", "C09", true, func(b *types.WorkObject, e *byzEnv) bool {
		b.Header().SetParentEntropy(inc(b.ParentEntropy(common.ZONE_CTX)), common.ZONE_CTX)
		return true
	}},
	{"parent-delta-entropy+1", "C09", true, func(b *types.WorkObject, e *byzEnv) bool {
		b.Header().SetParentDeltaEntropy(inc(b.ParentDeltaEntropy(common.ZONE_CTX)), common.ZONE_CTX)
		return true
	}},
	{"parent-uncled-delta-entropy+1", "C09", true, func(b *types.WorkObject, e *byzEnv) bool {
		b.Header().SetParentUncledDeltaEntropy(inc(b.Header().ParentUncledDeltaEntropy(common.ZONE_CTX)), common.ZONE_CTX)
		return true
	}},
	{"uncled-entropy+1", "C09", true, func(b *types.WorkObject, e *byzEnv) bool {
		b.Header().SetUncledEntropy(inc(b.Header().UncledEntropy()))
		return true
	}},
	{"time-before-parent", "C09", true, func(b *types.WorkObject, e *byzEnv) bool {
		if e.parent.Time() == 0 {
			return false
		}
		b.WorkObjectHeader().SetTime(e.parent.Time() - 1)
		return true
	}},
	{"time-far-future", "C09", true, func(b *types.WorkObject, e *byzEnv) bool {
		b.WorkObjectHeader().SetTime(b.Time() + 1000)
		return true
	}},
	{"time-2^63", "C09", true, func(b *types.WorkObject, e *byzEnv) bool {
		b.WorkObjectHeader().SetTime(1 << 63)
		return true
	}},
	{"time-max-uint64", "C09", true, func(b *types.WorkObject, e *byzEnv) bool {
		b.WorkObjectHeader().SetTime(^uint64(0) - uint64(e.arg%3))
		return true
	}},
	{"time-2^63-plus-now", "C09", true, func(b *types.WorkObject, e *byzEnv) bool {
		b.WorkObjectHeader().SetTime(1<<63 + b.Time())
		return true
	}},
	{"efficiency-score+1", "observe", true, func(b *types.WorkObject, e *byzEnv) bool {
		b.Header().SetEfficiencyScore(b.Header().EfficiencyScore() + 1)
		return true
	}},
	{"threshold-count+1", "observe", true, func(b *types.WorkObject, e *byzEnv) bool {
		b.Header().SetThresholdCount(b.Header().ThresholdCount() + 1)
		return true
	}},
	{"etx-eligible-slices", "observe", true, func(b *types.WorkObject, e *byzEnv) bool {
		b.Header().SetEtxEligibleSlices(flip(b.Header().EtxEligibleSlices()))
		return true
	}},
	{"parent-hash", "C09", true, func(b *types.WorkObject, e *byzEnv) bool {
		gp := e.parent.ParentHash(common.ZONE_CTX)
		if gp == (common.Hash{}) {
			return false
		}
		b.SetParentHash(gp, common.ZONE_CTX) // claims the grandparent as parent while keeping number and derived fields
		b.WorkObjectHeader().SetParentHash(gp)
		return true
	}},
	// ---- C08: the seal covers the content
	{"nonce+1-no-reseal", "C08", false, func(b *types.WorkObject, e *byzEnv) bool {
		n := b.WorkObjectHeader().Nonce().Uint64()
		b.WorkObjectHeader().SetNonce(types.EncodeNonce(n + 1))
		return true
	}},
	{"mixhash-no-reseal", "C08", false, func(b *types.WorkObject, e *byzEnv) bool {
		b.WorkObjectHeader().SetMixHash(flip(b.WorkObjectHeader().MixHash()))
		return true
	}},
	{"seal-reuse-gas-used", "C08", false, func(b *types.WorkObject, e *byzEnv) bool {
		b.Header().SetGasUsed(b.Header().GasUsed() + 1)
		return true
	}},
	{"seal-reuse-coinbase", "C08", false, func(b *types.WorkObject, e *byzEnv) bool {
		b.WorkObjectHeader().SetPrimaryCoinbase(quaiAccounts[e.arg%4].Addr)
		return true
	}},
	{"seal-reuse-time", "C08", false, func(b *types.WorkObject, e *byzEnv) bool {
		b.WorkObjectHeader().SetTime(b.Time() + 1)
		return true
	}},
	{"seal-reuse-tx-dropped", "C08", false, func(b *types.WorkObject, e *byzEnv) bool {
		txs := b.Transactions()
		if len(txs) == 0 {
			return false
		}
		rebuildBody(b, append(types.Transactions{}, txs[:len(txs)-1]...), b.OutboundEtxs())
		return true
	}},
	{"seal-reuse-difficulty-lowered", "C08", false, func(b *types.WorkObject, e *byzEnv) bool {
		b.WorkObjectHeader().SetDifficulty(new(big.Int).Div(b.Difficulty(), big.NewInt(2)))
		return true
	}},
}

// ByzOutcome reports what the node did with a rewritten block.
type ByzOutcome struct {
	Mutation   string
	Applied    bool
	Accepted   bool // appended AND became head with state executed
	Appended   bool
	Hash       common.Hash
	HonestHash common.Hash // hash of the honest candidate the rewrite started from (sealed)
	Err        string
	TraceNote  string // non-empty: the rejected block left this trace in chain state
}

// Byzantine builds an honest zone-order candidate on the node's head, applies mutation m, re-seals
// if the mutation says so, hands it to the node and reports the outcome. The node's head and pending
// header are restored afterwards so the run can continue.
func (w *World) Byzantine(n *Node, head common.Hash, m Mutation, arg int, start uint64) (out ByzOutcome, err error) {
	out.Mutation = m.Name
	_ = w.Fill(n)
	ph, err := n.PendingWork(n.Cfg.QuaiCoinbase)
	if err != nil {
		return out, fmt.Errorf("pending work: %w", err)
	}
	zoneOrder := func(wo *types.WorkObject) bool {
		_, o, e := n.Zone().CalcOrder(wo)
		return e == nil && o == common.ZONE_CTX
	}
	if err := Seal(ph, start, 1<<18, zoneOrder); err != nil {
		return out, nil // no zone-order seal in budget: skip
	}
	cand, err := n.Zone().ConstructLocalMinedBlock(ph)
	if err != nil {
		return out, fmt.Errorf("construct candidate: %w", err)
	}
	out.HonestHash = cand.Hash()
	blk, err := roundTripBlock(cand, LocZone) // deep copy through the codec
	if err != nil {
		return out, err
	}
	parent := n.Zone().GetBlockByHash(blk.ParentHash(common.ZONE_CTX))
	if parent == nil {
		return out, fmt.Errorf("candidate parent unknown")
	}
	env := &byzEnv{w: w, n: n, parent: parent, arg: arg}
	if !m.Apply(blk, env) {
		return out, nil
	}
	out.Applied = true
	blk.WorkObjectHeader().SetHeaderHash(blk.Header().Hash())
	if m.Reseal {
		if err := Seal(blk, start+7, 1<<18, func(wo *types.WorkObject) bool {
			_, o, e := n.Zone().CalcOrder(wo)
			return e != nil || o == common.ZONE_CTX
		}); err != nil {
			// e.g. a difficulty the budget cannot meet: present it unsealed-for-its-claim
			_ = err
		}
	}
	bodyOnly := len(m.Name) > 5 && m.Name[:5] == "body-"
	if !m.Reseal && !bodyOnly {
		// the rewritten content has a fresh pseudo-random hash; with probability 1/difficulty it meets the
		// target by luck, which is then an honestly sealed block and not a reused seal: not a case
		h := blk.WorkObjectHeader()
		if h.Difficulty().Sign() > 0 {
			target := new(big.Int).Div(common.Big2e256, h.Difficulty())
			if new(big.Int).SetBytes(h.Hash().Bytes()).Cmp(target) <= 0 {
				out.Applied = false
				return out, nil
			}
		}
	}
	wire, err := roundTripBlockLoose(blk, LocZone)
	if err != nil {
		out.Err = "not encodable: " + err.Error()
		return out, nil
	}
	out.Hash = wire.Hash()
	before := ChainStateImage(n, w.maxNumber()+2)
	perr := guarded(func() error {
		n.Zone().WriteBlock(wire)
		synctest.Wait()
		return nil
	})
	if perr != nil {
		return out, fmt.Errorf("node panicked on byzantine block (%s): %v", m.Name, perr)
	}
	out.Appended = n.Appended(out.Hash)
	if out.Appended {
		// a block only counts as accepted once its state executed, i.e. it can become head
		z := n.Zone().GetBlockByHash(out.Hash)
		if z != nil {
			ph2, rh2 := w.lineHeads(head)
			p, r := n.Prime().GetBlockByHash(ph2), n.Region().GetBlockByHash(rh2)
			if p != nil && r != nil {
				e2 := n.UpdateHeads(p, r, z)
				synctest.Wait()
				if e2 == nil {
					out.Accepted = true
				} else {
					out.Err = e2.Error()
				}
			}
		}
	}
	// restore the honest head and pending header
	if herr := w.SetHead(n, head); herr != nil && head != w.Gen {
		return out, fmt.Errorf("cannot restore head after byzantine block: %w", herr)
	}
	w.outbox = nil
	if !out.Accepted {
		after := ChainStateImage(n, w.maxNumber()+2)
		if d := DiffImages(before, after); d != "[]" {
			out.TraceNote = "differs=" + classifyDiff(before, after) + " " + d
		}
	}
	return out, nil
}

// roundTripBlockLoose is roundTripBlock without the hash-stability demand (used for rewritten blocks).
func roundTripBlockLoose(b *types.WorkObject, loc common.Location) (*types.WorkObject, error) {
	pb, err := b.ProtoEncode(types.BlockObject)
	if err != nil {
		return nil, err
	}
	out := &types.WorkObject{}
	if err := out.ProtoDecode(pb, loc, types.BlockObject); err != nil {
		return nil, err
	}
	return out, nil
}
