package chainsim

import (
	"bytes"
	"encoding/json"
	"fmt"

	"github.com/dominant-strategies/go-quai/common"
	"github.com/dominant-strategies/go-quai/crypto"
	"github.com/dominant-strategies/go-quai/rlp"
)

// addressTable checks the classification clause of C16 on boundary addresses: for every node location, every
// construction path must classify an address as internal exactly when its first byte is the location's zone prefix,
// and the ledger must be the high bit of the second byte. (A finite table, evaluated once per run; the rest of C16
// is decided on simulated state.)
// fixedLocationFinding holds the first occurrence, in the current run, of the known decoder behaviour recorded as
// C16-decoders-fixed-location (reported once, at the end of the run, so that the other oracles still run).
var fixedLocationFinding string

func addressTable(fail func(class, witness, detail string)) {
	fixedLocationFinding = ""
	locs := []common.Location{{0, 0}, {0, 1}, {0, 2}, {1, 0}, {1, 1}, {2, 2}}
	var addrs [][20]byte
	for _, first := range []byte{0x00, 0x01, 0x02, 0x10, 0x11, 0x22, 0xff} {
		for _, second := range []byte{0x00, 0x7f, 0x80, 0xff} {
			var a [20]byte
			a[0], a[1] = first, second
			addrs = append(addrs, a)
			a[19] = 0x01
			addrs = append(addrs, a)
		}
	}
	for _, ac := range quaiAccounts[:2] {
		addrs = append(addrs, ac.Addr.Bytes20())
	}
	addrs = append(addrs, qiAccounts[0].Addr.Bytes20())
	for _, loc := range locs {
		for _, b := range addrs {
			wantInternal := b[0] == loc.BytePrefix()
			wantQi := b[1]&0x80 != 0
			check := func(path string, a common.Address) bool {
				_, err := a.InternalAddress()
				gotInternal := err == nil
				if gotInternal != wantInternal {
					fail("address-classification", "path="+path, fmt.Sprintf("address %x at node location %v: %s classifies it internal=%v, its first byte says internal=%v", b, loc, path, gotInternal, wantInternal))
					return false
				}
				if a.IsInQiLedgerScope() != wantQi || a.IsInQuaiLedgerScope() == wantQi {
					fail("address-classification", "path="+path+" ledger", fmt.Sprintf("address %x: %s says qi=%v quai=%v, second byte says qi=%v", b, path, a.IsInQiLedgerScope(), a.IsInQuaiLedgerScope(), wantQi))
					return false
				}
				if !bytes.Equal(a.Bytes(), b[:]) {
					fail("address-classification", "path="+path+" bytes", fmt.Sprintf("address %x came back as %x through %s", b, a.Bytes(), path))
					return false
				}
				return true
			}
			// the three representations answer the ledger question alike
			ab, ia := common.AddressBytes(b), common.InternalAddress(b)
			if ab.IsInQiLedgerScope() != wantQi || ab.IsInQuaiLedgerScope() == wantQi || ia.IsInQiLedgerScope() != wantQi || ia.IsInQuaiLedgerScope() == wantQi {
				fail("address-classification", "path=twin-ledger-predicates", fmt.Sprintf("address %x: AddressBytes says qi=%v quai=%v, InternalAddress says qi=%v quai=%v, the second byte says qi=%v", b, ab.IsInQiLedgerScope(), ab.IsInQuaiLedgerScope(), ia.IsInQiLedgerScope(), ia.IsInQuaiLedgerScope(), wantQi))
				return
			}
			if l := ab.Location(); l == nil || l.BytePrefix() != b[0] {
				if l != nil {
					fail("address-classification", "path=AddressBytes.Location", fmt.Sprintf("address %x is placed in %v", b, l))
					return
				}
			}
			if !check("BytesToAddress", common.BytesToAddress(b[:], loc)) {
				return
			}
			if !check("Bytes20ToAddress", common.Bytes20ToAddress(b, loc)) {
				return
			}
			if !check("HexToAddress", common.HexToAddress(fmt.Sprintf("0x%x", b), loc)) {
				return
			}
			// the decoders that get no location from their caller (JSON, text, RLP)
			for _, dp := range []struct {
				name string
				dec  func() (common.Address, error)
			}{
				{"UnmarshalJSON", func() (a common.Address, err error) {
					err = a.UnmarshalJSON([]byte(fmt.Sprintf("\"0x%x\"", b)))
					return
				}},
				{"UnmarshalText", func() (a common.Address, err error) {
					err = a.UnmarshalText([]byte(fmt.Sprintf("0x%x", b)))
					return
				}},
				{"DecodeRLP", func() (a common.Address, err error) {
					enc, e := rlp.EncodeToBytes(b[:])
					if e != nil {
						return a, e
					}
					err = rlp.DecodeBytes(enc, &a)
					return
				}},
			} {
				a, err := dp.dec()
				if err != nil {
					continue
				}
				_, ierr := a.InternalAddress()
				if (ierr == nil) != wantInternal {
					if (ierr == nil) == (b[0] == (common.Location{0, 0}).BytePrefix()) {
						// classified as a node at location 0-0 would: the decoder has no way to learn the node's location
						if fixedLocationFinding == "" {
							fixedLocationFinding = fmt.Sprintf("address %x decoded by %s at node location %v is classified internal=%v (what a node at 0-0 would say); its first byte says internal=%v", b, dp.name, loc, ierr == nil, wantInternal)
						}
						continue
					}
					fail("address-classification", "path="+dp.name, fmt.Sprintf("address %x at node location %v: %s classifies it internal=%v, its first byte says internal=%v", b, loc, dp.name, ierr == nil, wantInternal))
					return
				}
				if !bytes.Equal(a.Bytes(), b[:]) {
					fail("address-classification", "path="+dp.name+" bytes", fmt.Sprintf("address %x came back as %x through %s", b, a.Bytes(), dp.name))
					return
				}
			}
			// protobuf
			pa := common.BytesToAddress(b[:], loc).ProtoEncode()
			var dec common.Address
			if err := dec.ProtoDecode(pa, loc); err == nil {
				if !check("ProtoDecode", dec) {
					return
				}
			}
			// mixed-case string (the JSON-RPC argument path)
			if mc, err := common.NewMixedcaseAddressFromString(common.AddressBytes(b).Hex(), loc); err == nil {
				if !check("NewMixedcaseAddressFromString", mc.Address()) {
					return
				}
			}
		}
	}
	// derivation paths never yield an address that the node then mis-classifies
	for i, ac := range quaiAccounts {
		a := crypto.PubkeyToAddress(ac.Key.PublicKey, LocZone)
		if _, err := a.InternalAddress(); err != nil || !a.Equal(ac.Addr) {
			fail("address-classification", "path=PubkeyToAddress", fmt.Sprintf("key %d derives %x, internal err %v", i, a.Bytes(), err))
			return
		}
	}
	_ = json.Marshal
	_ = rlp.EncodeToBytes
}
