// S1 dbsim — lock-step simulation of the three storage engines (and the rawdb
// wrappers) against a map + ordered-batch reference model.  Property C17.
//
// One rapid tape = one history of database operations, applied to memorydb,
// leveldb and pebble (each behind the same view: raw / nofreezedb / table) and
// to the model.  Faults: close-and-reopen between any two operations (durable
// engines), iterators held open across writes (snapshot semantics), batches
// replayed into another engine's batch.
package dbsim

import (
	"bytes"
	"fmt"
	"os"
	"sort"
	"testing"

	"github.com/dominant-strategies/go-quai/core/rawdb"
	"github.com/dominant-strategies/go-quai/ethdb"
	"github.com/dominant-strategies/go-quai/ethdb/leveldb"
	"github.com/dominant-strategies/go-quai/ethdb/memorydb"
	"github.com/dominant-strategies/go-quai/ethdb/pebble"
	"github.com/dominant-strategies/go-quai/log"
	"pgregory.net/rapid"

	"verif/sim/simkit"
)

var logger = log.NewLogger("", "error", 0)

func TestMain(m *testing.M) {
	code := m.Run()
	simkit.Global.Flush()
	os.Exit(code)
}

// ---- alphabets (fixed; indices come from the tape)

var keyAlphabet = [][]byte{
	[]byte("a"), []byte("ab"), []byte("abc"), []byte("abd"), []byte("b"),
	[]byte("T"), []byte("T-"), []byte("T-a"), []byte("T-ab"), []byte("T."), []byte("U"),
	{0xff}, {0xff, 0xff}, {0xff, 0x00}, {0xfe, 0xff}, {0x00}, {0x00, 0x00}, {0x00, 0xff},
	[]byte("ut"), []byte("utx"), []byte("ut\xff"), []byte("ut\xff\xff"), []byte("cl"), []byte("k"),
}
var prefixAlphabet = [][]byte{nil, []byte("a"), []byte("ab"), []byte("T"), []byte("T-"), {0xff}, {0xff, 0xff}, {0x00}, []byte("ut"), []byte("ut\xff"), []byte("zz")}
var startAlphabet = [][]byte{nil, []byte("a"), []byte("b"), []byte("c"), {0x00}, {0xff}, []byte("-")}
var valAlphabet = [][]byte{[]byte("v1"), []byte("v2"), []byte("value-three"), {}, {0x00}, bytes.Repeat([]byte{0xab}, 300), []byte("v7"), []byte("v8")}

// ---- reference model

type mop struct {
	del bool
	k   string
	v   []byte
}
type mbatch struct {
	ops      []mop
	tracking bool
	pending  map[string]*[]byte // nil entry = tombstone
	written  bool
}
type model struct {
	db      map[string][]byte
	batches []*mbatch
}

func (m *model) sortedKeys(prefix, start []byte) []string {
	var out []string
	lo := string(prefix) + string(start)
	for k := range m.db {
		if len(k) >= len(prefix) && k[:len(prefix)] == string(prefix) && k >= lo {
			out = append(out, k)
		}
	}
	sort.Strings(out)
	return out
}

// ---- system under test: one engine behind one view

type sut struct {
	name   string
	dir    string
	kv     ethdb.KeyValueStore // the engine
	db     ethdb.KeyValueStore // the view the ops go through
	view   int
	bs     []ethdb.Batch
	reopen func(dir string) (ethdb.KeyValueStore, error)
}

const tablePrefix = "T-"

func (s *sut) build() {
	switch s.view {
	case 0:
		s.db = s.kv
	case 1:
		s.db = rawdb.NewDatabase(s.kv)
	case 2:
		s.db = rawdb.NewTable(rawdb.NewDatabase(s.kv), tablePrefix, nil, logger)
	}
}

var viewNames = []string{"raw", "nofreezedb", "table"}

func scratchBase() string {
	if d := os.Getenv("VERIF_SCRATCH"); d != "" {
		return d
	}
	if st, err := os.Stat("/dev/shm"); err == nil && st.IsDir() {
		return "/dev/shm"
	}
	return os.TempDir()
}

// tapeOp is one entry of the decision tape; every field is a small index.
type tapeOp struct{ Op, K, V, B, P, S int }

var opNames = []string{"put", "put", "put", "delete", "delete", "get", "get", "has", "iter", "iter", "iter", "newbatch", "bput", "bput", "bput", "bput", "bdelete", "bdelete", "setpending", "setpending", "getpending", "getpending", "getpending", "getpending", "bwrite", "bwrite", "breset", "breplay", "bsize", "reopen", "compact", "holditer", "holditer", "releaseiter"}

var opGen = rapid.Custom(func(t *rapid.T) tapeOp {
	return tapeOp{
		Op: rapid.IntRange(0, len(opNames)-1).Draw(t, "op"),
		K:  rapid.OneOf(rapid.IntRange(0, 3), rapid.IntRange(0, len(keyAlphabet)-1)).Draw(t, "k"),
		V:  rapid.IntRange(0, len(valAlphabet)-1).Draw(t, "v"),
		B:  rapid.IntRange(0, 2).Draw(t, "b"),
		P:  rapid.IntRange(0, len(prefixAlphabet)-1).Draw(t, "p"),
		S:  rapid.IntRange(0, len(startAlphabet)-1).Draw(t, "s"),
	}
})

type opRec struct {
	Op  string `json:"op"`
	Arg string `json:"arg,omitempty"`
}

func runHistory(t *rapid.T) {
	const P = "C17"
	defer simkit.EndOnKnown()
	tr := simkit.NewTrace()
	base, err := os.MkdirTemp(scratchBase(), "dbsim-")
	if err != nil {
		panic(err)
	}
	defer os.RemoveAll(base)

	view := rapid.IntRange(0, 2).Draw(t, "view")
	var tape []tapeOp
	for _, seg := range rapid.SliceOfN(rapid.SliceOfN(opGen, 1, 16), 1, 8).Draw(t, "tape") {
		tape = append(tape, seg...)
	}
	engines := []*sut{
		{name: "memorydb", reopen: nil},
		{name: "leveldb", dir: base + "/ldb", reopen: func(d string) (ethdb.KeyValueStore, error) {
			return leveldb.New(d, 0, 0, "", false, logger, nil)
		}},
		{name: "pebble", dir: base + "/pbl", reopen: func(d string) (ethdb.KeyValueStore, error) {
			return pebble.New(d, 0, 0, "", false, logger, nil)
		}},
	}
	engines[0].kv = memorydb.New(logger)
	for _, e := range engines[1:] {
		kv, err := e.reopen(e.dir)
		if err != nil {
			panic(fmt.Sprintf("open %s: %v", e.name, err))
		}
		e.kv = kv
	}
	// keys outside the table's prefix that must never be visible or touched through the table view
	outside := map[string][]byte{"S": []byte("s"), "T": []byte("t"), "T,": []byte("c"), "T.": []byte("d"), "U": []byte("u")}
	for _, e := range engines {
		e.view = view
		if view == 2 {
			for k, v := range outside {
				if err := e.kv.Put([]byte(k), v); err != nil {
					panic(err)
				}
			}
		}
		e.build()
	}
	defer func() {
		for _, e := range engines {
			e.kv.Close()
		}
	}()
	m := &model{db: map[string][]byte{}}
	tr.Event("view=%s", viewNames[view])

	var hist []opRec
	fail := func(e *sut, class, witness, detail string) {
		w := fmt.Sprintf("engine=%s view=%s %s", e.name, viewNames[view], witness)
		if simkit.Violation(t, tr, P, class, w, fmt.Sprintf("%s\nhistory: %+v", detail, hist)) {
			panic(simkit.KnownReached{}) // ends this run only
		}
	}
	rec := func(op, arg string) {
		hist = append(hist, opRec{op, arg})
		tr.Event("%s %s", op, arg)
	}

	type openIter struct {
		its    []ethdb.Iterator
		expect []string
		vals   [][]byte
	}
	var held *openIter

	drain := func(e *sut, it ethdb.Iterator, wantK []string, wantV [][]byte, what string) {
		i := 0
		var prev []byte
		for it.Next() {
			k, v := it.Key(), it.Value()
			if prev != nil && bytes.Compare(prev, k) >= 0 {
				fail(e, "iter-order", "op=iterate", fmt.Sprintf("%s: key %x after %x", what, k, prev))
			}
			prev = append([]byte{}, k...)
			if i >= len(wantK) {
				fail(e, "iter-content", "op=iterate extra-key", fmt.Sprintf("%s: extra key %x (model has %d)", what, k, len(wantK)))
				return
			}
			if string(k) != wantK[i] || !bytes.Equal(v, wantV[i]) {
				fail(e, "iter-content", "op=iterate", fmt.Sprintf("%s: item %d got (%x,%x) want (%x,%x)", what, i, k, v, wantK[i], wantV[i]))
				return
			}
			i++
		}
		if err := it.Error(); err != nil {
			fail(e, "iter-content", "op=iterate error", fmt.Sprintf("%s: %v", what, err))
		}
		if i != len(wantK) {
			fail(e, "iter-content", "op=iterate missing-key", fmt.Sprintf("%s: got %d items, model has %d (next missing %x)", what, i, len(wantK), wantK[i]))
		}
		it.Release()
	}
	releaseHeld := func() {
		if held != nil {
			for i, e := range engines {
				drain(e, held.its[i], held.expect, held.vals, "held iterator (snapshot)")
			}
			held = nil
			simkit.Global.Inc("fault.iter_held_across_writes")
		}
	}

	kinds := map[string]bool{}
	for _, o := range tape {
		op, ki, vi, bi := opNames[o.Op], o.K, o.V, o.B
		kinds[op] = true
		key, val := keyAlphabet[ki], valAlphabet[vi]
		var mb *mbatch
		if len(m.batches) == 0 && (op[0] == 'b' || op == "setpending" || op == "getpending") {
			rec("newbatch", "(implicit)")
			for _, e := range engines {
				e.bs = append(e.bs, e.db.NewBatch())
			}
			m.batches = append(m.batches, &mbatch{})
		}
		if len(m.batches) > 0 {
			bi = bi % len(m.batches)
			mb = m.batches[bi]
		}
		switch op {
		case "put":
			rec(op, fmt.Sprintf("%x=%x", key, val))
			for _, e := range engines {
				if err := e.db.Put(key, val); err != nil {
					fail(e, "kv-model", "op=put error", err.Error())
				}
			}
			m.db[string(key)] = val
		case "delete":
			rec(op, fmt.Sprintf("%x", key))
			for _, e := range engines {
				if err := e.db.Delete(key); err != nil {
					fail(e, "kv-model", "op=delete error", err.Error())
				}
			}
			delete(m.db, string(key))
		case "get", "has":
			rec(op, fmt.Sprintf("%x", key))
			want, ok := m.db[string(key)]
			for _, e := range engines {
				has, err := e.db.Has(key)
				if err != nil || has != ok {
					fail(e, "kv-model", "op=has", fmt.Sprintf("Has(%x)=%v,%v model %v", key, has, err, ok))
				}
				got, err := e.db.Get(key)
				if ok && (err != nil || !bytes.Equal(got, want)) {
					fail(e, "kv-model", "op=get", fmt.Sprintf("Get(%x)=%x,%v model %x", key, got, err, want))
				}
				if !ok && err == nil {
					fail(e, "kv-model", "op=get absent", fmt.Sprintf("Get(%x)=%x without error, model: absent", key, got))
				}
			}
		case "iter", "holditer":
			prefix, start := prefixAlphabet[o.P], startAlphabet[o.S]
			rec(op, fmt.Sprintf("prefix=%x start=%x", prefix, start))
			keys := m.sortedKeys(prefix, start)
			vals := make([][]byte, len(keys))
			for i, k := range keys {
				vals[i] = m.db[k]
			}
			if len(keys) > 1 {
				simkit.Global.Inc("probe.iter_multi_key")
			}
			if op == "holditer" {
				releaseHeld()
				held = &openIter{expect: keys, vals: vals}
				for _, e := range engines {
					held.its = append(held.its, e.db.NewIterator(prefix, start))
				}
				break
			}
			for _, e := range engines {
				drain(e, e.db.NewIterator(prefix, start), keys, vals, fmt.Sprintf("iterate(%x,%x)", prefix, start))
			}
		case "releaseiter":
			rec(op, "")
			releaseHeld()
		case "newbatch":
			if len(m.batches) >= 3 {
				break
			}
			rec(op, "")
			for _, e := range engines {
				e.bs = append(e.bs, e.db.NewBatch())
			}
			m.batches = append(m.batches, &mbatch{})
		case "bput", "bdelete":
			if mb.written { // the node always resets a written batch before reuse
				rec("breset", fmt.Sprintf("b%d (implicit)", bi))
				for _, e := range engines {
					e.bs[bi].Reset()
				}
				*mb = mbatch{}
			}
			rec(op, fmt.Sprintf("b%d %x=%x", bi, key, val))
			for _, e := range engines {
				var err error
				if op == "bput" {
					err = e.bs[bi].Put(key, val)
				} else {
					err = e.bs[bi].Delete(key)
				}
				if err != nil {
					fail(e, "batch-model", "op="+op+" error", err.Error())
				}
			}
			if op == "bput" {
				mb.ops = append(mb.ops, mop{false, string(key), val})
				if mb.tracking {
					v := val
					mb.pending[string(key)] = &v
				}
			} else {
				mb.ops = append(mb.ops, mop{true, string(key), nil})
				if mb.tracking {
					mb.pending[string(key)] = nil
				}
			}
		case "setpending":
			if mb == nil || mb.written {
				break
			}
			on := vi%4 != 0
			rec(op, fmt.Sprintf("b%d %v", bi, on))
			for _, e := range engines {
				e.bs[bi].SetPending(on)
			}
			mb.tracking = on
			mb.pending = map[string]*[]byte{}
		case "getpending":
			if mb == nil || !mb.tracking {
				break // results without tracking are unspecified
			}
			if vi%2 == 0 && len(mb.pending) > 0 { // interpret K modulo the live pending set
				pk := make([]string, 0, len(mb.pending))
				for k := range mb.pending {
					pk = append(pk, k)
				}
				sort.Strings(pk)
				key = []byte(pk[ki%len(pk)])
			}
			rec(op, fmt.Sprintf("b%d %x", bi, key))
			wantDel, wantVal, wantHit := false, []byte(nil), false
			if p, ok := mb.pending[string(key)]; ok {
				wantHit = true
				if p == nil {
					wantDel = true
				} else {
					wantVal = *p
				}
				simkit.Global.Inc("probe.pending_hit")
			}
			for _, e := range engines {
				del, v := e.bs[bi].GetPending(key)
				bad := del != wantDel || !bytes.Equal(v, wantVal)
				// a hit on an empty value is indistinguishable from a miss in this API; not demanded
				if bad {
					fail(e, "batch-pending", "op=GetPending-after-SetPending", fmt.Sprintf("GetPending(%x)=(%v,%x) model (%v,%x) hit=%v", key, del, v, wantDel, wantVal, wantHit))
				}
			}
		case "bwrite":
			if mb == nil || mb.written {
				break
			}
			rec(op, fmt.Sprintf("b%d n=%d", bi, len(mb.ops)))
			for _, e := range engines {
				if err := e.bs[bi].Write(); err != nil {
					fail(e, "batch-model", "op=write error", err.Error())
				}
			}
			for _, o := range mb.ops {
				if o.del {
					delete(m.db, o.k)
				} else {
					m.db[o.k] = o.v
				}
			}
			mb.written, mb.tracking, mb.pending = true, false, nil
			if len(mb.ops) > 1 {
				simkit.Global.Inc("probe.batch_multi_op_write")
			}
		case "breset":
			if mb == nil {
				break
			}
			rec(op, fmt.Sprintf("b%d", bi))
			for _, e := range engines {
				e.bs[bi].Reset()
				if sz := e.bs[bi].ValueSize(); sz != 0 {
					fail(e, "batch-model", "op=reset size", fmt.Sprintf("ValueSize after Reset = %d", sz))
				}
			}
			*mb = mbatch{}
		case "breplay":
			if mb == nil {
				break
			}
			// replay into: the view itself (direct writes), or a fresh batch of the *next* engine's view (cross-engine replay) which is then written
			cross := vi%2 == 0
			rec(op, fmt.Sprintf("b%d cross=%v", bi, cross))
			for i, e := range engines {
				if !cross {
					if err := e.bs[bi].Replay(e.db); err != nil {
						fail(e, "batch-replay", "op=replay error", err.Error())
					}
				} else {
					tgt := engines[(i+1)%len(engines)]
					nb := tgt.db.NewBatch()
					if err := e.bs[bi].Replay(nb); err != nil {
						fail(e, "batch-replay", "op=replay error", err.Error())
					}
					if err := nb.Write(); err != nil {
						fail(tgt, "batch-replay", "op=replay write error", err.Error())
					}
				}
			}
			for _, o := range mb.ops {
				if o.del {
					delete(m.db, o.k)
				} else {
					m.db[o.k] = o.v
				}
			}
			simkit.Global.Inc("probe.replay")
		case "bsize":
			if mb == nil {
				break
			}
			rec(op, fmt.Sprintf("b%d", bi))
			for _, e := range engines {
				sz := e.bs[bi].ValueSize()
				if len(mb.ops) == 0 && sz != 0 {
					fail(e, "batch-model", "op=valuesize", fmt.Sprintf("ValueSize=%d with %d queued ops", sz, len(mb.ops)))
				}
			}
		case "reopen":
			rec(op, "")
			releaseHeld()
			for _, e := range engines {
				if e.reopen == nil {
					continue
				}
				if err := e.kv.Close(); err != nil {
					fail(e, "kv-model", "op=close error", err.Error())
				}
				kv, err := e.reopen(e.dir)
				if err != nil {
					fail(e, "kv-model", "op=reopen error", err.Error())
				}
				e.kv = kv
				e.build()
			}
			// batches of a closed handle are gone: every engine and the model drop theirs
			for _, e := range engines {
				e.bs = nil
			}
			m.batches = nil
			simkit.Global.Inc("fault.reopen")
		case "compact":
			rec(op, "")
			for _, e := range engines {
				if err := e.db.Compact(nil, nil); err != nil {
					fail(e, "kv-model", "op=compact error", err.Error())
				}
			}
		}
	}
	releaseHeld()
	// final full scan: every engine equals the model, and the table view touched nothing outside its prefix
	keys := m.sortedKeys(nil, nil)
	vals := make([][]byte, len(keys))
	for i, k := range keys {
		vals[i] = m.db[k]
	}
	for _, e := range engines {
		drain(e, e.db.NewIterator(nil, nil), keys, vals, "final scan")
		if view == 2 {
			full := map[string][]byte{}
			for k, v := range outside {
				full[k] = v
			}
			for k, v := range m.db {
				full[tablePrefix+k] = v
			}
			var fk []string
			for k := range full {
				fk = append(fk, k)
			}
			sort.Strings(fk)
			fv := make([][]byte, len(fk))
			for i, k := range fk {
				fv[i] = full[k]
			}
			drain(e, e.kv.NewIterator(nil, nil), fk, fv, "final scan of underlying store")
		}
	}
	simkit.Global.Inc("runs")
	simkit.Global.Add("ops", int64(len(hist)))
	simkit.Global.Seen("trace", tr.Digest())
	if len(kinds) >= 5 && len(hist) >= 8 {
		simkit.Global.Seen("nontrivial", tr.Digest())
	}
	simkit.Global.Seen("view", viewNames[view])
	simkit.Global.Sample(map[string]any{"view": viewNames[view], "ops": hist})
}

func TestC17(t *testing.T) {
	rapid.Check(t, runHistory)
}
