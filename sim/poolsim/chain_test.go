package poolsim

// Stub chain behind the pool's 17-method blockChain interface: a block tree over
// a real state.Database / state.StateDB (accounts with balances and nonces the
// tape controls), and the signed-transaction universe.

import (
	"crypto/ecdsa"
	"crypto/sha256"
	"fmt"
	"math/big"
	"sync"
	"sync/atomic"

	"github.com/dominant-strategies/go-quai/common"
	"github.com/dominant-strategies/go-quai/consensus"
	"github.com/dominant-strategies/go-quai/core"
	"github.com/dominant-strategies/go-quai/core/rawdb"
	"github.com/dominant-strategies/go-quai/core/state"
	"github.com/dominant-strategies/go-quai/core/types"
	"github.com/dominant-strategies/go-quai/crypto"
	"github.com/dominant-strategies/go-quai/ethdb"
	"github.com/dominant-strategies/go-quai/event"
	"github.com/dominant-strategies/go-quai/log"
	"github.com/dominant-strategies/go-quai/params"
)

const nAcc = 4

var (
	locZone = common.Location{0, 0}
	chainID = big.NewInt(1337)
)

type account struct {
	key  *ecdsa.PrivateKey
	addr common.Address
	in   common.InternalAddress
}

// grindKey derives a key from a fixed label until its address lies in zone 0-0
// and in the wanted ledger (second byte <= 127: Quai).  Pure function of its arguments.
func grindKey(label string, qi bool) account {
	for i := 0; ; i++ {
		h := sha256.Sum256([]byte(fmt.Sprintf("verif-poolsim/%s/%d", label, i)))
		k, err := crypto.ToECDSA(h[:])
		if err != nil {
			continue
		}
		a := crypto.PubkeyToAddress(k.PublicKey, locZone)
		if loc := a.Location(); loc == nil || !loc.Equal(locZone) {
			continue
		}
		if a.IsInQiLedgerScope() != qi {
			continue
		}
		ia, err := a.InternalAddress()
		if err != nil {
			continue
		}
		return account{k, a, ia}
	}
}

var (
	accounts  [nAcc]account
	acctIndex = map[common.InternalAddress]int{}
	sinkAddr  common.Address
	qiAccount account
	signer    types.Signer
	badSigner types.Signer
)

func init() {
	for i := range accounts {
		accounts[i] = grindKey(fmt.Sprintf("quai%d", i), false)
		acctIndex[accounts[i].in] = i
	}
	sinkAddr = grindKey("sink", false).addr
	qiAccount = grindKey("qi0", true)
	signer = types.NewSigner(chainID, locZone)
	badSigner = types.NewSigner(big.NewInt(4242), locZone)
}

// ---- transaction universe.  Signatures are computed once per process; every
// submission gets a fresh *types.Transaction (own caches, own arrival time).

var (
	gasPrices = []int64{1, 2, 3, 5, 10, 11, 12, 20, 21, 22}
	// variants: value / gas limit / signer
	nVariants = 4
)

type txKey struct {
	acct    int
	nonce   uint64
	price   int64
	variant int
}

type protoEnt struct{ inner types.TxData }

// signatures are computed lazily, once per process; the table is lock-free so that it adds no
// happens-before edges between client goroutines other than "signed before used".
var protoTab [nAcc][maxNonce + 1][32][4]atomic.Pointer[protoEnt]

func protoFor(k txKey) types.TxData {
	slot := &protoTab[k.acct][k.nonce][k.price][k.variant]
	if p := slot.Load(); p != nil {
		return p.inner
	}
	to := sinkAddr
	inner := &types.QuaiTx{ChainID: chainID, Nonce: k.nonce, GasPrice: big.NewInt(k.price), Gas: 21000, To: &to, Value: big.NewInt(1000)}
	sg := signer
	switch k.variant {
	case 1: // expensive: value above the small balances
		inner.Value = big.NewInt(700_000)
	case 2: // gas above the low block gas limit
		inner.Gas = 60_000
	case 3: // signed for another chain id: invalid sender
		inner.ChainID = big.NewInt(4242)
		sg = badSigner
	}
	tx, err := types.SignNewTx(accounts[k.acct].key, sg, inner)
	if err != nil {
		panic(err)
	}
	slot.CompareAndSwap(nil, &protoEnt{tx.Inner()})
	return slot.Load().inner
}

// newTx returns a fresh transaction object for the key (as if decoded from the wire just now).
func newTx(k txKey) *types.Transaction { return types.NewTx(protoFor(k)) }

// ---- block tree

type acctState struct {
	nonce uint64
	bal   *big.Int
}

type blockRec struct {
	wo     *types.WorkObject
	parent *blockRec
	num    uint64
	accts  [nAcc]acctState
}

type stubSub struct {
	once sync.Once
	err  chan error
}

func (s *stubSub) Unsubscribe()      { s.once.Do(func() { close(s.err) }) }
func (s *stubSub) Err() <-chan error { return s.err }

type stubChain struct {
	mu      sync.RWMutex // leaf lock: no yield point while held
	head    atomic.Pointer[blockRec]
	blocks  map[common.Hash]*blockRec
	sdb     state.Database
	etxdb   state.Database
	logger  *log.Logger
	seq     uint64
	headCh  chan<- core.ChainHeadEvent
	sub     *stubSub
	maxTxWS uint64
	db      ethdb.Database // the pool's database (UTXO set size per block)
	term    *types.WorkObject
}

func newStubChain(logger *log.Logger, bal [nAcc]int64, gasLimit uint64, baseFee int64) *stubChain {
	c := &stubChain{blocks: map[common.Hash]*blockRec{}, logger: logger, maxTxWS: 64,
		sdb:   state.NewDatabase(rawdb.NewMemoryDatabase(logger)),
		etxdb: state.NewDatabase(rawdb.NewMemoryDatabase(logger))}
	var st [nAcc]acctState
	for i := range st {
		st[i] = acctState{0, big.NewInt(bal[i])}
	}
	// the "prime terminus" every block points to (Qi fee computations read its exchange rate)
	c.term = types.EmptyZoneWorkObject()
	c.term.Header().SetExchangeRate(big.NewInt(1))
	c.term.WorkObjectHeader().SetNonce(types.EncodeNonce(0xffff))
	c.blocks[c.term.Hash()] = &blockRec{wo: c.term, num: 0}
	c.head.Store(c.makeBlock(nil, st, nil, gasLimit, baseFee))
	return c
}

// finishGenesis records the UTXO set size of the first block once the pool's database is known.
func (c *stubChain) finishGenesis() { rawdb.WriteUTXOSetSize(c.db, c.head.Load().wo.Hash(), 1000) }

// makeBlock builds (and registers) a block on parent with the given post-state.
func (c *stubChain) makeBlock(parent *blockRec, st [nAcc]acctState, txs []*types.Transaction, gasLimit uint64, baseFee int64) *blockRec {
	parentRoot := types.EmptyRootHash
	if parent != nil {
		parentRoot = parent.wo.EVMRoot()
	}
	sdb, err := state.New(parentRoot, types.EmptyRootHash, big.NewInt(0), c.sdb, c.etxdb, nil, locZone, c.logger)
	if err != nil {
		panic(err)
	}
	for i := range st {
		sdb.SetNonce(accounts[i].in, st[i].nonce)
		sdb.SetBalance(accounts[i].in, st[i].bal)
	}
	root, err := sdb.Commit(true)
	if err != nil {
		panic(err)
	}
	wo := types.EmptyZoneWorkObject()
	wo.Header().SetEVMRoot(root)
	wo.Header().SetGasLimit(gasLimit)
	wo.Header().SetBaseFee(big.NewInt(baseFee))
	wo.Header().SetPrimeTerminusHash(c.term.Hash())
	wo.Header().SetExchangeRate(big.NewInt(1))
	wo.WorkObjectHeader().SetDifficulty(big.NewInt(1_000_000))
	wo.Body().SetTransactions(txs)
	num := uint64(1)
	if parent != nil {
		num = parent.num + 1
		wo.WorkObjectHeader().SetParentHash(parent.wo.Hash())
	}
	wo.WorkObjectHeader().SetNumber(new(big.Int).SetUint64(num))
	c.seq++
	wo.WorkObjectHeader().SetNonce(types.EncodeNonce(c.seq))
	wo.WorkObjectHeader().SetHeaderHash(wo.Header().Hash())
	b := &blockRec{wo: wo, parent: parent, num: num, accts: st}
	c.blocks[wo.Hash()] = b
	if c.db != nil {
		rawdb.WriteUTXOSetSize(c.db, wo.Hash(), 1000)
	}
	return b
}

func (c *stubChain) headRec() *blockRec { return c.head.Load() }

func (c *stubChain) CurrentBlock() *types.WorkObject { return c.headRec().wo }
func (c *stubChain) GetBlock(hash common.Hash, number uint64) *types.WorkObject {
	c.mu.RLock()
	defer c.mu.RUnlock()
	if b := c.blocks[hash]; b != nil && b.num == number {
		return b.wo
	}
	return nil
}
func (c *stubChain) StateAt(root, etxRoot common.Hash, quaiStateSize *big.Int) (*state.StateDB, error) {
	return state.New(root, etxRoot, quaiStateSize, c.sdb, c.etxdb, nil, locZone, c.logger)
}
func (c *stubChain) SubscribeChainHeadEvent(ch chan<- core.ChainHeadEvent) event.Subscription {
	c.mu.Lock()
	defer c.mu.Unlock()
	c.headCh = ch
	c.sub = &stubSub{err: make(chan error)}
	return c.sub
}
func (c *stubChain) IsGenesisHash(hash common.Hash) bool                           { return false }
func (c *stubChain) CheckIfEtxIsEligible(hash common.Hash, l common.Location) bool { return true }
func (c *stubChain) Engine(header *types.WorkObjectHeader) consensus.Engine        { return nil }
func (c *stubChain) GetHeaderOrCandidateByHash(h common.Hash) *types.WorkObject {
	return c.GetBlockByHash(h)
}
func (c *stubChain) NodeCtx() int                                    { return common.ZONE_CTX }
func (c *stubChain) GetHeaderByHash(h common.Hash) *types.WorkObject { return c.GetBlockByHash(h) }
func (c *stubChain) GetBlockByHash(h common.Hash) *types.WorkObject {
	c.mu.RLock()
	defer c.mu.RUnlock()
	if b := c.blocks[h]; b != nil {
		return b.wo
	}
	return nil
}
func (c *stubChain) eventCh() chan<- core.ChainHeadEvent {
	c.mu.RLock()
	defer c.mu.RUnlock()
	return c.headCh
}
func (c *stubChain) GetMaxTxInWorkShare() uint64                             { return c.maxTxWS }
func (c *stubChain) CheckInCalcOrderCache(common.Hash) (*big.Int, int, bool) { return nil, 0, false }
func (c *stubChain) AddToCalcOrderCache(common.Hash, int, *big.Int)          {}
func (c *stubChain) CalcBaseFee(wo *types.WorkObject) *big.Int               { return wo.BaseFee() }
func (c *stubChain) CalcOrder(*types.WorkObject) (*big.Int, int, error) {
	return big.NewInt(0), common.ZONE_CTX, nil
}
func (c *stubChain) setHead(b *blockRec) { c.head.Store(b) }
func (c *stubChain) register(parent *blockRec, st [nAcc]acctState, txs []*types.Transaction, gl uint64, bf int64) *blockRec {
	c.mu.Lock()
	defer c.mu.Unlock()
	return c.makeBlock(parent, st, txs, gl, bf)
}

var _ ethdb.Reader = (ethdb.Database)(nil)
var _ = params.TxGas
