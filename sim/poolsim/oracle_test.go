package poolsim

// The oracle of C19, evaluated by the root goroutine at quiescent points.
//
// level 1 (every quiescent point; pool.mu free, no controlled goroutine runnable):
//   lists/hash index/price index agree, pending ∩ queue = ∅, pending lists have no nonce gap,
//   pending and total size limits.
// level 3 (after a "full pass": an empty block + reorg tick, i.e. a reset that promotes every queued account):
//   additionally the per-account queue limit.
// level 2 (additionally, when the reorg loop has served every request: after the
//   extra reorg tick of a "settle" and its quiescence): pending starts at the head
//   state's nonce and every pending transaction is payable (per transaction, the
//   pool's own rule), nothing stale or unpayable is queued, queue limits.

import (
	"fmt"
	"math/big"
	"sort"
	"strings"

	"github.com/dominant-strategies/go-quai/common"
	"github.com/dominant-strategies/go-quai/core"
	"github.com/dominant-strategies/go-quai/core/types"
)

func dumpView(v *core.VerifView, head *blockRec) string {
	var b strings.Builder
	for a := 0; a < nAcc; a++ {
		in := accounts[a].in
		fmt.Fprintf(&b, "  a%d state(nonce=%d bal=%v) pending[", a, head.accts[a].nonce, head.accts[a].bal)
		for _, t := range v.Pending[in] {
			fmt.Fprintf(&b, " n%d@%v", t.Nonce, t.Price)
		}
		b.WriteString(" ] queue[")
		for _, t := range v.Queue[in] {
			fmt.Fprintf(&b, " n%d@%v", t.Nonce, t.Price)
		}
		pn, ok := v.PendingNonce[in]
		fmt.Fprintf(&b, " ] noncer=%d/%v local=%v\n", pn, ok, v.LocalAccounts[in])
	}
	fmt.Fprintf(&b, "  all: locals=%d remotes=%d slots=%d  priced: urgent=%d floating=%d stales=%d  limits: AS=%d GS=%d AQ=%d GQ=%d  head #%d gaslimit=%d basefee=%v chans=%v\n",
		len(v.Locals), len(v.Remotes), v.Slots, len(v.Urgent), len(v.Floating), v.Stales,
		v.Config.AccountSlots, v.Config.GlobalSlots, v.Config.AccountQueue, v.Config.GlobalQueue, head.num, head.wo.GasLimit(), head.wo.BaseFee(), v.ChanLens)
	return b.String()
}

func (h *harness) oracle(after string, level int) {
	strong := level >= 2
	if h.violated() {
		return
	}
	h.oracleN++
	v := h.pool.VerifView()
	if v == nil {
		h.fail("deadlock", "waits=pool.mu-held-at-quiescence after="+after, "no goroutine is runnable but pool.mu is locked")
		return
	}
	head := h.chain.headRec()
	bad := func(inv, detail string) {
		h.fail("invariant", "invariant="+inv+" after="+after, fmt.Sprintf("level-%d oracle after %s: %s\n%s", level, after, detail, dumpView(v, head)))
	}
	if h.model != nil && !h.stopped {
		if diff := h.model.compare(v); diff != "" {
			h.fail("model", "invariant=content-mismatch after="+after, "the pool's content differs from the sequential reference model: "+diff+"\n"+dumpView(v, head))
		}
	}
	addrs := make([]common.InternalAddress, 0, nAcc)
	for a := 0; a < nAcc; a++ {
		addrs = append(addrs, accounts[a].in)
	}
	// accounts the harness does not know must not appear
	for a := range v.Pending {
		if _, ok := acctIndex[a]; !ok {
			bad("unknown-account", fmt.Sprintf("pending list of unknown account %x", a))
		}
	}
	for a := range v.Queue {
		if _, ok := acctIndex[a]; !ok {
			bad("unknown-account", fmt.Sprintf("queue of unknown account %x", a))
		}
	}

	// (3) hash index == union of the lists
	type place struct {
		acct    int
		pending bool
		nonce   uint64
	}
	inLists := map[common.Hash]place{}
	totalPending, totalQueued := 0, 0
	for ai, a := range addrs {
		for pi, lists := range [2]map[common.InternalAddress][]core.VerifTx{v.Pending, v.Queue} {
			for _, t := range lists[a] {
				if t.From != a {
					bad("list-wrong-account", fmt.Sprintf("tx %x of sender %x sits in a list of a%d", t.Hash[:4], t.From, ai))
				}
				if p, dup := inLists[t.Hash]; dup {
					bad("hash-in-two-lists", fmt.Sprintf("tx %x (a%d n%d) is in two lists (other: pending=%v)", t.Hash[:4], ai, t.Nonce, p.pending))
				}
				inLists[t.Hash] = place{ai, pi == 0, t.Nonce}
				_, l := v.Locals[t.Hash]
				_, r := v.Remotes[t.Hash]
				if !l && !r {
					bad("list-not-in-all", fmt.Sprintf("tx a%d n%d (pending=%v) is in a list but not in the hash index", ai, t.Nonce, pi == 0))
				}
				if pi == 0 {
					totalPending++
				} else {
					totalQueued++
				}
			}
		}
	}
	for hsh, t := range v.Locals {
		if _, ok := inLists[hsh]; !ok {
			bad("all-not-in-lists", fmt.Sprintf("local tx a%d n%d is in the hash index but in no list", acctIndex[t.From], t.Nonce))
		}
		if _, both := v.Remotes[hsh]; both {
			bad("all-local-and-remote", fmt.Sprintf("tx a%d n%d is indexed as local and remote", acctIndex[t.From], t.Nonce))
		}
	}
	for hsh, t := range v.Remotes {
		if _, ok := inLists[hsh]; !ok {
			bad("all-not-in-lists", fmt.Sprintf("remote tx a%d n%d is in the hash index but in no list", acctIndex[t.From], t.Nonce))
		}
	}
	if v.Slots != len(v.Locals)+len(v.Remotes) {
		bad("slots-count", fmt.Sprintf("slot counter %d, %d transactions of one slot each", v.Slots, len(v.Locals)+len(v.Remotes)))
	}
	// (2) pending ∩ queue = ∅ by (account, nonce); by hash is covered by hash-in-two-lists
	for ai, a := range addrs {
		pn := map[uint64]bool{}
		for _, t := range v.Pending[a] {
			pn[t.Nonce] = true
		}
		for _, t := range v.Queue[a] {
			if pn[t.Nonce] {
				bad("pending-and-queued", fmt.Sprintf("a%d nonce %d is both pending and queued", ai, t.Nonce))
			}
		}
	}
	// (3b) what the pool tells its readers (Content: RPC; TxPoolPending: the miner) comes from each list's sorted-read cache:
	// where that cache is populated it must hold exactly the list's transactions
	for _, d := range v.StaleCaches {
		bad("reader-view", "the sorted-read cache of "+d)
	}
	// (1a) pending lists have no nonce gap
	for ai, a := range addrs {
		l := v.Pending[a]
		for i := 1; i < len(l); i++ {
			if l[i].Nonce != l[i-1].Nonce+1 {
				bad("pending-nonce-gap", fmt.Sprintf("a%d pending nonces %d then %d", ai, l[i-1].Nonce, l[i].Nonce))
			}
		}
	}
	// (3) price index holds every remote transaction; its stale counter is never below the number of stale entries
	heap := map[common.Hash]int{}
	actualStale := 0
	for _, hs := range [][]common.Hash{v.Urgent, v.Floating} {
		for _, x := range hs {
			heap[x]++
			if _, live := v.Remotes[x]; !live {
				actualStale++
			}
		}
	}
	for hsh, t := range v.Remotes {
		if heap[hsh] == 0 {
			bad("priced-missing-remote", fmt.Sprintf("remote tx a%d n%d @%v is not in the price index", acctIndex[t.From], t.Nonce, t.Price))
		}
		if heap[hsh] > 1 {
			h.inc("probe.priced_duplicate_live_entry")
		}
	}
	if v.Stales < actualStale {
		bad("priced-stales-undercount", fmt.Sprintf("price index holds %d stale entries but counts %d", actualStale, v.Stales))
	}
	// (4) limits that hold whenever the lock is free
	if uint64(totalPending) > v.Config.GlobalSlots {
		for ai, a := range addrs {
			if uint64(len(v.Pending[a])) > v.Config.AccountSlots {
				bad("pending-limit", fmt.Sprintf("%d pending > GlobalSlots %d while a%d holds %d > AccountSlots %d", totalPending, v.Config.GlobalSlots, ai, len(v.Pending[a]), v.Config.AccountSlots))
			}
		}
	}
	if uint64(v.Slots) > v.Config.GlobalSlots+v.Config.GlobalQueue {
		bad("pool-overflow", fmt.Sprintf("%d slots used > GlobalSlots+GlobalQueue = %d", v.Slots, v.Config.GlobalSlots+v.Config.GlobalQueue))
	}

	if strong && !h.stopped {
		for _, c := range []string{"chainHeadCh", "reqResetCh", "reqPromoteCh", "queueTxEventCh", "reorgDoneCh"} {
			if v.ChanLens[c] != 0 {
				panic(fmt.Sprintf("poolsim: %s not drained at a settled point (%v)", c, v.ChanLens))
			}
		}
		gasLimit := head.wo.GasLimit()
		for ai, a := range addrs {
			st := head.accts[ai]
			if l := v.Pending[a]; len(l) > 0 && l[0].Nonce != st.nonce {
				bad("pending-not-from-state-nonce", fmt.Sprintf("a%d state nonce %d, first pending nonce %d", ai, st.nonce, l[0].Nonce))
			}
			for _, t := range v.Pending[a] {
				if t.Cost.Cmp(st.bal) > 0 {
					bad("pending-unaffordable", fmt.Sprintf("a%d n%d costs %v, balance %v", ai, t.Nonce, t.Cost, st.bal))
				}
				if t.Gas > gasLimit {
					bad("pending-over-gas-limit", fmt.Sprintf("a%d n%d gas %d, block gas limit %d", ai, t.Nonce, t.Gas, gasLimit))
				}
			}
			for _, t := range v.Queue[a] {
				if t.Nonce < st.nonce {
					bad("queue-stale-nonce", fmt.Sprintf("a%d queued nonce %d below state nonce %d", ai, t.Nonce, st.nonce))
				}
				if t.Cost.Cmp(st.bal) > 0 {
					bad("queue-unaffordable", fmt.Sprintf("a%d queued n%d costs %v, balance %v", ai, t.Nonce, t.Cost, st.bal))
				}
			}
			if level >= 3 && uint64(len(v.Queue[a])) > v.Config.AccountQueue {
				bad("queue-account-limit", fmt.Sprintf("a%d holds %d queued > AccountQueue %d", ai, len(v.Queue[a]), v.Config.AccountQueue))
			}
			if pn, ok := v.PendingNonce[a]; ok && pn != st.nonce+uint64(len(v.Pending[a])) {
				h.inc("probe.noncer_mismatch")
			}
		}
		if uint64(totalQueued) > v.Config.GlobalQueue {
			bad("queue-global-limit", fmt.Sprintf("%d queued > GlobalQueue %d", totalQueued, v.Config.GlobalQueue))
		}
	}

	if uint64(len(v.QiPool)) > v.Config.QiPoolSize {
		bad("qi-pool-limit", fmt.Sprintf("%d Qi transactions > QiPoolSize %d", len(v.QiPool), v.Config.QiPoolSize))
	}
	if len(v.QiPool) > 0 {
		h.inc("probe.qi_pool_nonempty")
	}
	// probes (rare conditions reached)
	if len(v.EmptyQueue) > 0 {
		h.inc("probe.empty_queue_list_object")
	}
	if uint64(totalPending) >= v.Config.GlobalSlots && totalPending > 0 {
		h.inc("probe.pending_at_global_limit")
	}
	if uint64(totalQueued) >= v.Config.GlobalQueue && totalQueued > 0 {
		h.inc("probe.queue_at_global_limit")
	}
	if uint64(v.Slots) == v.Config.GlobalSlots+v.Config.GlobalQueue {
		h.inc("probe.pool_full")
	}
	if actualStale > 0 {
		h.inc("probe.priced_stale_entries")
	}
	if p := h.prev; p != nil {
		was := map[common.Hash]bool{} // pending before
		for _, l := range p.Pending {
			for _, t := range l {
				was[t.Hash] = true
			}
		}
		wasQ := map[common.Hash]core.VerifTx{}
		for _, l := range p.Queue {
			for _, t := range l {
				wasQ[t.Hash] = t
			}
		}
		for hsh, pl := range inLists {
			if was[hsh] && !pl.pending {
				h.inc("probe.pending_demoted")
			}
			if _, q := wasQ[hsh]; q && pl.pending {
				h.inc("probe.queued_promoted")
			}
		}
		for hsh, t := range wasQ {
			ai := acctIndex[t.From]
			if _, still := inLists[hsh]; !still && t.Nonce >= head.accts[ai].nonce && t.Cost.Cmp(head.accts[ai].bal) <= 0 {
				replaced := false
				for _, x := range append(append([]core.VerifTx{}, v.Pending[t.From]...), v.Queue[t.From]...) {
					if x.Nonce == t.Nonce {
						replaced = true
					}
				}
				if !replaced {
					h.inc("probe.queue_truncated_or_evicted")
				}
			}
		}
		for _, l := range p.Pending {
			for _, t := range l {
				ai := acctIndex[t.From]
				if _, still := inLists[t.Hash]; !still && t.Nonce >= head.accts[ai].nonce && t.Cost.Cmp(head.accts[ai].bal) <= 0 {
					replaced := false
					for _, x := range append(append([]core.VerifTx{}, v.Pending[t.From]...), v.Queue[t.From]...) {
						if x.Nonce == t.Nonce {
							replaced = true
						}
					}
					if !replaced {
						h.inc("probe.pending_truncated_or_evicted")
					}
				}
			}
		}
	}
	for hsh := range h.resurrectable {
		if _, ok := inLists[hsh]; ok {
			h.inc("probe.tx_resurrected")
			delete(h.resurrectable, hsh)
		}
	}
	h.prev = v
	_ = sort.Strings
	_ = big.NewInt
}

func (h *harness) qiOp(c *client, op opT) {
	i := op.B % (nQi + 1)
	hs := []*common.Hash{&qiHashes[i], &qiHashes[(i+1)%nQi]}
	switch op.A % 6 {
	case 0, 1, 2:
		errs := h.pool.AddRemotes([]*types.Transaction{newQiTx(i)})
		res := "ok"
		if errs[0] != nil {
			res = "rejected"
			if errClass(errs[0]) == "known" {
				res = "known"
			}
		}
		h.inc("verdict.qi-" + res)
		h.s.event("op c%d qi-add %d -> %s", c.id, i, res)
		c.log = append(c.log, fmt.Sprintf("qi-add %d -> %s", i, res))
	case 3:
		tx := newQiTx(i)
		err := h.pool.AddLocal(tx)
		h.s.event("op c%d qi-add-local %d -> %v", c.id, i, err == nil)
		c.log = append(c.log, fmt.Sprintf("qi-add-local %d -> %v", i, err == nil))
	case 4:
		h.pool.RemoveQiTxs(hs)
		h.s.event("op c%d qi-remove %d", c.id, i)
		c.log = append(c.log, fmt.Sprintf("qi-remove %d", i))
	case 5:
		h.pool.AsyncRemoveQiTxs(hs)
		h.s.event("op c%d qi-async-remove %d", c.id, i)
		c.log = append(c.log, fmt.Sprintf("qi-async-remove %d", i))
	}
}
