//go:build !race

package poolsim

import "unsafe"

const raceBuild = false

func raceOff()                     {}
func raceOn()                      {}
func raceRelease(p unsafe.Pointer) {}
func raceAcquire(p unsafe.Pointer) {}
