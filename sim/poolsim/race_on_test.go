//go:build race

package poolsim

import (
	"runtime"
	"unsafe"
)

// The scheduler's own synchronisation (its mutex, the wake channels) must not
// create happens-before edges in the race detector: it would order every step of
// every controlled goroutine and no data race of the pool could ever be reported.
// Scheduler code therefore runs between raceOff/raceOn (synchronisation events
// ignored) inside //go:norace functions (its memory accesses ignored).

const raceBuild = true

func raceOff()                     { runtime.RaceDisable() }
func raceOn()                      { runtime.RaceEnable() }
func raceRelease(p unsafe.Pointer) { runtime.RaceReleaseMerge(p) }
func raceAcquire(p unsafe.Pointer) { runtime.RaceAcquire(p) }
