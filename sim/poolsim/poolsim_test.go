// S4 poolsim — the real core.TxPool (rewritten tx_pool.go: every lock
// acquisition, channel operation, select, spawn, ticker and pool-map iteration is
// a scheduler decision) driven by 2..4 simulated clients against a stub chain.
// Property C19.
//
// One rapid tape = pool configuration (limits 1..4, balances, gas limit, base fee,
// journal, NoLocals) + rounds, each a list of operations per client + the schedule
// bytes.  Everything is drawn before the synctest bubble is entered.
//
// A round: the clients of the round run concurrently under the scheduler until no
// controlled goroutine is runnable (quiescent point: level-1 oracle).  A round may
// then "settle" (one reorg tick, quiescence: level-2 oracle) and do a "full pass"
// (an empty block + reorg tick: level-3 oracle).  See oracle_test.go for what each
// level demands and why.  Deadlock is decided (settle()), panics are caught both
// at the goroutine wrappers and in the pool's own "recovered and logged" paths.
//
// Files: sched_test.go (scheduler), chain_test.go (stub chain, transaction
// universe), qi_test.go (Qi transactions), oracle_test.go (invariants),
// model_test.go (sequential reference model of TestC19Seq), race_*_test.go.
package poolsim

import (
	"bytes"
	"errors"
	"fmt"
	"io"
	"math/big"
	"os"
	"os/exec"
	"path/filepath"
	"runtime"
	"sort"
	"strconv"
	"strings"
	"sync"
	"testing"
	"testing/synctest"
	"time"

	"github.com/dominant-strategies/go-quai/common"
	"github.com/dominant-strategies/go-quai/core"
	"github.com/dominant-strategies/go-quai/core/rawdb"
	"github.com/dominant-strategies/go-quai/core/types"
	"github.com/dominant-strategies/go-quai/params"
	"github.com/sirupsen/logrus"
	"pgregory.net/rapid"

	"verif/sim/simkit"
)

const P = "C19"

func TestMain(m *testing.M) {
	if raceBuild && os.Getenv("POOLSIM_RACE_CHILD") == "" {
		os.Exit(raceParent())
	}
	core.VerifDisableSenderCacher()
	code := m.Run()
	simkit.Global.Flush()
	os.Exit(code)
}

// raceParent (race builds): the race runtime reports on stderr and, with GORACE=halt_on_error=1, ends the process
// on the spot, so a report can never become a rapid failure.  The test binary therefore re-executes itself and the
// parent turns a report of the child into the violation line of class "race".  The interleaving is a function of
// the rapid seed, so the same -rapid.seed/-rapid.checks under the race build reproduce it.
func raceParent() int {
	cmd := exec.Command(os.Args[0], os.Args[1:]...)
	cmd.Env = append(os.Environ(), "POOLSIM_RACE_CHILD=1")
	var errBuf bytes.Buffer
	cmd.Stdout = os.Stdout
	cmd.Stderr = io.MultiWriter(os.Stderr, &errBuf)
	err := cmd.Run()
	out := errBuf.String()
	if i := strings.Index(out, "WARNING: DATA RACE"); i >= 0 {
		fmt.Printf("VCLASS property=%s class=race digest= witness={%s}\nrace detector report (reproduce with the race build and the same -rapid.seed / -rapid.checks: %v)\n",
			P, raceWitness(out[i:]), os.Args[1:])
		return 1
	}
	if err != nil {
		if ee, ok := err.(*exec.ExitError); ok {
			return ee.ExitCode()
		}
		fmt.Fprintln(os.Stderr, "poolsim: cannot re-execute:", err)
		return 2
	}
	return 0
}

// raceWitness names the two conflicting accesses by their innermost non-runtime functions.
func raceWitness(report string) string {
	var fns []string
	lines := strings.Split(report, "\n")
	for i, l := range lines {
		t := strings.TrimSpace(l)
		if !(strings.HasPrefix(t, "Read at") || strings.HasPrefix(t, "Write at") || strings.HasPrefix(t, "Previous read at") || strings.HasPrefix(t, "Previous write at")) {
			continue
		}
		for j := i + 1; j < len(lines) && strings.HasPrefix(lines[j], "  "); j += 2 {
			f := strings.TrimSpace(lines[j])
			if strings.HasPrefix(f, "runtime.") || strings.HasPrefix(f, "sync.") || strings.HasPrefix(f, "internal/") {
				continue
			}
			f = strings.TrimSuffix(f, "()")
			if k := strings.LastIndex(f, "/"); k >= 0 {
				f = f[k+1:]
			}
			fns = append(fns, f)
			break
		}
		if len(fns) == 2 {
			break
		}
	}
	sort.Strings(fns)
	return "race=" + strings.Join(fns, "|")
}

// ---------------------------------------------------------------- tape

type opT struct{ Kind, A, B, C, D int }

type roundT struct {
	Ops    [][]opT // per client
	Settle int
}

type cfgT struct {
	Clients           int
	AS, GS, AQ, GQ    int
	Bal               [nAcc]int
	GasLimit, BaseFee int
	Journal, NoLocals int
	StopInLast        int
	QiPool            int
	MaxTxWS           int
}

var opGen = rapid.Custom(func(t *rapid.T) opT {
	return opT{
		Kind: rapid.IntRange(0, 15).Draw(t, "k"),
		A:    rapid.IntRange(0, 7).Draw(t, "a"),
		B:    rapid.IntRange(0, 7).Draw(t, "b"),
		C:    rapid.IntRange(0, 9).Draw(t, "c"),
		D:    rapid.IntRange(0, 15).Draw(t, "d"),
	}
})

var roundGen = rapid.Custom(func(t *rapid.T) roundT {
	return roundT{
		Ops:    rapid.SliceOfN(rapid.SliceOfN(opGen, 0, 3), 1, 4).Draw(t, "ops"),
		Settle: rapid.IntRange(0, 2).Draw(t, "settle"),
	}
})

var cfgGen = rapid.Custom(func(t *rapid.T) cfgT {
	c := cfgT{
		Clients:    rapid.IntRange(2, 4).Draw(t, "clients"),
		AS:         rapid.IntRange(1, 4).Draw(t, "as"),
		GS:         rapid.IntRange(1, 4).Draw(t, "gs"),
		AQ:         rapid.IntRange(1, 4).Draw(t, "aq"),
		GQ:         rapid.IntRange(1, 4).Draw(t, "gq"),
		GasLimit:   rapid.IntRange(0, 3).Draw(t, "gl"),
		BaseFee:    rapid.IntRange(0, 3).Draw(t, "bf"),
		Journal:    rapid.IntRange(0, 1).Draw(t, "journal"),
		NoLocals:   rapid.IntRange(0, 3).Draw(t, "nolocals"),
		StopInLast: rapid.IntRange(0, 3).Draw(t, "stoplast"),
		QiPool:     rapid.IntRange(1, 3).Draw(t, "qipool"),
		MaxTxWS:    rapid.IntRange(0, 3).Draw(t, "maxtxws"),
	}
	for i := range c.Bal {
		c.Bal[i] = rapid.IntRange(0, 3).Draw(t, "bal")
	}
	return c
})

var balances = []int64{5_000_000, 5_000_000, 600_000, 260_000}

const (
	lifetime     = 10 * time.Second
	qiLifetime   = 20 * time.Second
	maxNonce     = 15
	lowGasLimit  = 30_000
	highGasLimit = 1_000_000
)

var advances = []time.Duration{time.Second, 4 * time.Second, 11 * time.Second, 45 * time.Second}

// ---------------------------------------------------------------- harness

type violation struct {
	class, witness, detail string
}

type slotSnap struct {
	have    bool
	hash    common.Hash
	price   *big.Int
	pending bool
}

type addRec struct {
	txs   []*types.Transaction
	keys  []txKey
	snaps []slotSnap
	taken bool
	full  bool // the pool had no free slot when the add got the lock
}

type client struct {
	id        int
	cur       *addRec
	log       []string
	resurrect []common.Hash // transactions of abandoned blocks that the new branch does not include
}

type harness struct {
	s       *Sched
	pool    *core.TxPool
	chain   *stubChain
	cfg     cfgT
	pcfg    core.TxPoolConfig
	tr      *simkit.Trace
	chainMu sync.Mutex // serialises head updates + event delivery (acquired through the scheduler)
	muAddr  any

	logMu     sync.Mutex
	logPanics []string

	stopped bool
	dir     string

	model         *model // TestC19Seq only
	oracleN       int
	sample        []string
	prev          *core.VerifView
	resurrectable map[common.Hash]bool
}

func (h *harness) inc(k string) { h.s.count(k, 1) }

// Fire implements logrus.Hook: the pool's goroutines recover their own panics and only log them.
func (h *harness) Levels() []logrus.Level {
	return []logrus.Level{logrus.ErrorLevel, logrus.FatalLevel, logrus.PanicLevel}
}
func (h *harness) Fire(e *logrus.Entry) error {
	if strings.Contains(e.Message, "Panicked") {
		h.logMu.Lock()
		h.logPanics = append(h.logPanics, fmt.Sprintf("%v\n%v", e.Data["error"], e.Data["stacktrace"]))
		h.logMu.Unlock()
	}
	return nil
}

func (h *harness) fail(class, witness, detail string) {
	h.s.setViolation(&violation{class, witness, detail})
}
func (h *harness) violated() bool { return h.s.violation() != nil }

func errClass(err error) string {
	switch {
	case err == nil:
		return "ok"
	case errors.Is(err, core.ErrAlreadyKnown):
		return "known"
	case errors.Is(err, core.ErrReplaceUnderpriced):
		return "replace-underpriced"
	case errors.Is(err, core.ErrUnderpriced):
		return "underpriced"
	case errors.Is(err, core.ErrTxPoolOverflow):
		return "overflow"
	case errors.Is(err, core.ErrNonceTooLow):
		return "nonce-low"
	case errors.Is(err, core.ErrInsufficientFunds):
		return "funds"
	case errors.Is(err, core.ErrInvalidSender):
		return "invalid-sender"
	case errors.Is(err, core.ErrIntrinsicGas):
		return "intrinsic-gas"
	case strings.Contains(err.Error(), "exceeds block gas limit"):
		return "gas-limit"
	case strings.Contains(err.Error(), "low gas price"):
		return "base-fee"
	case strings.Contains(err.Error(), "invalid chain id"):
		return "invalid-chain"
	}
	return "other"
}

// threshold is the pool's documented replacement rule: old * (100 + bump) / 100, integer division.
func threshold(old *big.Int, bump uint64) *big.Int {
	t := new(big.Int).Mul(old, big.NewInt(int64(100+bump)))
	return t.Div(t, big.NewInt(100))
}

// ---------------------------------------------------------------- client operations

var variantOf = []int{0, 0, 0, 0, 0, 0, 0, 0, 0, 0, 0, 1, 1, 2, 2, 3}

func (h *harness) keyFor(op opT, delta int) txKey {
	a := op.A % nAcc
	base := h.chain.headRec().accts[a].nonce
	n := int(base) + delta
	if n < 0 {
		n = 0
	}
	if n > maxNonce {
		n = maxNonce
	}
	v := variantOf[op.D%len(variantOf)]
	p := gasPrices[op.C%len(gasPrices)]
	if v != 0 {
		p = gasPrices[4+op.C%3]
	}
	return txKey{a, uint64(n), p, v}
}

func (h *harness) onAcquire(g *G, l any, write bool) {
	if !write || l != h.muAddr {
		return
	}
	c, ok := g.user.(*client)
	if !ok || c.cur == nil || c.cur.taken {
		return
	}
	// g holds pool.mu exclusively and is the only goroutine running: the pool's lists can be read.
	r := c.cur
	r.taken = true
	// "full": some transaction of this call may find the pool without a free slot, i.e. the pool may discard its
	// cheapest remote transactions (possibly the very occupant of the slot) before it looks at the slot
	r.full = h.pool.VerifSlots()+len(r.keys) > int(h.pcfg.GlobalSlots+h.pcfg.GlobalQueue)
	for _, k := range r.keys {
		var sn slotSnap
		if tx, pending := h.pool.VerifSlot(accounts[k.acct].in, k.nonce); tx != nil {
			sn = slotSnap{true, tx.Hash(), tx.GasPrice(), pending}
		}
		r.snaps = append(r.snaps, sn)
	}
}

func keyStr(k txKey) string {
	return fmt.Sprintf("a%d/n%d/p%d/v%d", k.acct, k.nonce, k.price, k.variant)
}

// add submits the transactions and checks clause (5) of the property on the verdicts.
func (h *harness) add(c *client, how string, keys []txKey) {
	r := &addRec{keys: keys}
	for _, k := range keys {
		r.txs = append(r.txs, newTx(k))
	}
	ks := make([]string, len(keys))
	for i, k := range keys {
		ks[i] = keyStr(k)
	}
	c.cur = r
	var errs []error
	switch how {
	case "add-local":
		errs = []error{h.pool.AddLocal(r.txs[0])}
	case "add-remote":
		errs = []error{h.pool.AddRemote(r.txs[0])}
	case "add-remotes":
		errs = h.pool.AddRemotes(r.txs)
	case "add-locals":
		errs = h.pool.AddLocals(r.txs)
	}
	c.cur = nil
	res := make([]string, len(errs))
	for i, e := range errs {
		res[i] = errClass(e)
		h.inc("verdict." + res[i])
		if res[i] == "other" {
			m := e.Error()
			if len(m) > 40 {
				m = m[:40]
			}
			h.inc("verdict.other: " + m)
		}
	}
	h.s.event("op c%d %s %v -> %v", c.id, how, ks, res)
	c.log = append(c.log, fmt.Sprintf("%s %v -> %v", how, ks, res))
	if h.model != nil {
		local := (how == "add-local" || how == "add-locals") && !h.pcfg.NoLocals
		bf := h.chain.headRec().wo.BaseFee()
		var xs []*mtx
		for _, tx := range r.txs {
			xs = append(xs, mtxOf(tx))
		}
		for i, mv := range h.model.addBatch(xs, local, bf) {
			if mv != res[i] {
				h.fail("model", "invariant=verdict-mismatch model="+mv+" pool="+res[i]+" via="+how,
					fmt.Sprintf("%s of %s: the reference model says %q, the pool answered %q (%v)", how, ks[i], mv, res[i], errs[i]))
			}
		}
	}
	if !r.taken {
		return // never got the pool lock (shut down)
	}
	// clause (5): an accepted transaction that meets another one in its (account, nonce) slot must pay the bump
	type slot struct {
		a int
		n uint64
	}
	cur := map[slot]slotSnap{}
	for i, k := range keys {
		sl := slot{k.acct, k.nonce}
		old, seen := cur[sl]
		if !seen {
			old = r.snaps[i]
		}
		if errs[i] != nil {
			continue
		}
		if old.have && old.hash != r.txs[i].Hash() && r.full && len(keys) > 1 {
			// a batch that may have evicted the occupant while making room for an EARLIER transaction of the batch:
			// "the occupant was still there" cannot be established from outside; not judged
			h.inc("probe.replacement_check_skipped_full_batch")
		} else if old.have && old.hash != r.txs[i].Hash() {
			need := threshold(old.price, h.pcfg.PriceBump)
			if r.txs[i].GasPrice().Cmp(need) < 0 || r.txs[i].GasPrice().Cmp(old.price) <= 0 {
				where := "queued"
				if old.pending {
					where = "pending"
				}
				full := "notfull"
				if r.full {
					full = "full"
				}
				h.fail("replacement", "invariant=replacement-without-bump old="+where+" pool="+full+" via="+how,
					fmt.Sprintf("slot %s held price %v; %s with price %v was accepted (bump %d%% needs >= %v)", keyStr(k), old.price, how, r.txs[i].GasPrice(), h.pcfg.PriceBump, need))
			} else {
				h.inc("probe.replacement_accepted")
			}
		}
		cur[sl] = slotSnap{true, r.txs[i].Hash(), r.txs[i].GasPrice(), false}
	}
	for i := range keys {
		if errs[i] != nil && errClass(errs[i]) == "replace-underpriced" {
			h.inc("probe.replacement_rejected")
		}
	}
}

// headOp extends the chain by k blocks and delivers the head event(s).
func (h *harness) headOp(c *client, op opT) {
	h.s.Yield("harness:0:headOp:chainMu.Lock", "lock")
	h.s.Acquire(&h.chainMu, true, "harness:0:headOp:chainMu.Lock")
	defer h.chainMu.Unlock()
	parent := h.chain.headRec()
	k := 1 + op.B%2
	var evs []*blockRec
	desc := ""
	for i := 0; i < k; i++ {
		st := parent.accts
		for j := range st {
			st[j].bal = new(big.Int).Set(st[j].bal)
		}
		var txs []*types.Transaction
		switch op.A % 4 {
		case 0, 1: // the miner takes up to 1+C%2 executable transactions per account from the pool
			pend, _ := h.pool.TxPoolPending()
			for a := 0; a < nAcc; a++ {
				list := pend[accounts[a].in.Bytes20()]
				for n := 0; n < len(list) && n < 1+op.C%2; n++ {
					tx := list[n]
					if tx.Nonce() != st[a].nonce || st[a].bal.Cmp(tx.Cost()) < 0 || st[a].nonce >= maxNonce {
						break
					}
					txs = append(txs, types.NewTx(tx.Inner()))
					st[a].nonce++
					st[a].bal.Sub(st[a].bal, tx.Cost())
				}
			}
		case 2: // a transaction the pool has (probably) not seen: pool entries of that nonce become stale
			a := op.C % nAcc
			key := txKey{a, st[a].nonce, gasPrices[3+op.D%3], 0}
			tx := newTx(key)
			if st[a].nonce < maxNonce && st[a].bal.Cmp(tx.Cost()) >= 0 {
				txs = append(txs, tx)
				st[a].nonce++
				st[a].bal.Sub(st[a].bal, tx.Cost())
			}
		case 3: // empty block
		}
		// balance changes (incoming transfer / outgoing spend made elsewhere)
		switch op.D % 5 {
		case 1:
			a := (op.D / 5) % nAcc
			if st[a].bal.Cmp(big.NewInt(250_000)) > 0 {
				st[a].bal = big.NewInt(250_000)
			}
		case 2:
			st[(op.D/5)%nAcc].bal = big.NewInt(5_000_000)
		}
		gl, bf := parent.wo.GasLimit(), parent.wo.BaseFee().Int64()
		switch op.C % 10 {
		case 7:
			if gl == lowGasLimit {
				gl = highGasLimit
			} else {
				gl = lowGasLimit
			}
		case 8:
			bf = 3 - bf // 1 <-> 2
		}
		b := h.chain.register(parent, st, txs, gl, bf)
		desc += fmt.Sprintf(" #%d(txs=%d gl=%d bf=%d)", b.num, len(txs), gl, bf)
		evs = append(evs, b)
		parent = b
	}
	h.chain.setHead(parent)
	if op.D%2 == 0 || h.model != nil {
		evs = evs[len(evs)-1:] // only the final head is announced
	}
	if h.model != nil {
		h.model.runReorg(parent, parent.wo.BaseFee())
	}
	h.s.event("op c%d head%s events=%d", c.id, desc, len(evs))
	c.log = append(c.log, "head"+desc)
	for _, b := range evs {
		h.sendHead(b)
	}
	h.inc("op.head")
}

func (h *harness) sendHead(b *blockRec) {
	ch := h.chain.eventCh()
	if ch == nil {
		return
	}
	h.s.Yield("harness:0:sendHead:send chainHeadCh", "send")
	ch <- core.ChainHeadEvent{Block: b.wo}
	h.s.Resume("harness:0:sendHead:send chainHeadCh")
}

// reorgOp replaces the last d blocks by another branch; transactions of the old
// branch that the new one does not include must be resurrected by the pool.
func (h *harness) reorgOp(c *client, op opT) {
	h.s.Yield("harness:0:reorgOp:chainMu.Lock", "lock")
	h.s.Acquire(&h.chainMu, true, "harness:0:reorgOp:chainMu.Lock")
	defer h.chainMu.Unlock()
	old := h.chain.headRec()
	d := 1 + op.A%2
	anc := old
	var oldTxs []*types.Transaction // oldest block first
	for i := 0; i < d && anc.parent != nil; i++ {
		oldTxs = append(append([]*types.Transaction{}, anc.wo.Transactions()...), oldTxs...)
		anc = anc.parent
	}
	if anc == old {
		h.s.event("op c%d reorg noop", c.id)
		return
	}
	depth := int(old.num - anc.num)
	newLen := depth
	switch op.B % 4 {
	case 1:
		newLen = depth + 1
	case 2:
		newLen = depth - 1
	}
	// how many of the old branch's transactions the new branch keeps (a per-account prefix, in order)
	keep := 0
	switch op.C % 3 {
	case 1:
		keep = (len(oldTxs) + 1) / 2
	case 2:
		keep = len(oldTxs)
	}
	parent := anc
	resurrect := len(oldTxs)
	for i := 0; i < newLen; i++ {
		st := parent.accts
		for j := range st {
			st[j].bal = new(big.Int).Set(st[j].bal)
		}
		var txs []*types.Transaction
		if i == 0 {
			for _, tx := range oldTxs {
				if keep == 0 {
					c.resurrect = append(c.resurrect, tx.Hash())
					continue
				}
				a, ok := senderIndex(tx)
				if !ok || tx.Nonce() != st[a].nonce || st[a].bal.Cmp(tx.Cost()) < 0 {
					c.resurrect = append(c.resurrect, tx.Hash())
					continue
				}
				txs = append(txs, types.NewTx(tx.Inner()))
				st[a].nonce++
				st[a].bal.Sub(st[a].bal, tx.Cost())
				keep--
				resurrect--
			}
		}
		parent = h.chain.register(parent, st, txs, old.wo.GasLimit(), old.wo.BaseFee().Int64())
	}
	h.chain.setHead(parent)
	if h.model != nil {
		h.model.runReorg(parent, parent.wo.BaseFee())
	}
	h.s.event("op c%d reorg depth=%d newlen=%d oldtxs=%d resurrect=%d", c.id, depth, newLen, len(oldTxs), resurrect)
	c.log = append(c.log, fmt.Sprintf("reorg depth=%d newlen=%d oldtxs=%d resurrect=%d", depth, newLen, len(oldTxs), resurrect))
	h.inc("fault.reorg")
	if resurrect > 0 {
		h.inc("fault.reorg_with_resurrection")
	}
	h.sendHead(parent)
}

func senderIndex(tx *types.Transaction) (int, bool) {
	from, err := types.Sender(signer, tx)
	if err != nil {
		return 0, false
	}
	in, err := from.InternalAndQuaiAddress()
	if err != nil {
		return 0, false
	}
	i, ok := acctIndex[in]
	return i, ok
}

func (h *harness) exec(c *client, op opT) {
	h.nOpsInc()
	switch op.Kind {
	case 0, 1:
		h.opKind("add-local")
		h.add(c, "add-local", []txKey{h.keyFor(op, op.B%5-1)})
	case 2, 3, 4:
		h.opKind("add-remote")
		h.add(c, "add-remote", []txKey{h.keyFor(op, op.B%5-1)})
	case 5:
		h.opKind("add-remotes")
		n := 2 + op.B%3
		var keys []txKey
		for i := 0; i < n; i++ {
			o := op
			o.C = op.C + i*(op.D%3)
			keys = append(keys, h.keyFor(o, i*(1+op.D%2)-op.B%2))
		}
		how := "add-remotes"
		if op.D >= 12 {
			how = "add-locals"
		}
		h.add(c, how, keys)
	case 6:
		h.opKind("set-gas-price")
		p := gasPrices[op.C%5]
		h.pool.SetGasPrice(big.NewInt(p))
		if h.model != nil {
			h.model.setGasPrice(big.NewInt(p))
		}
		h.s.event("op c%d set-gas-price %d", c.id, p)
		c.log = append(c.log, fmt.Sprintf("set-gas-price %d", p))
		h.inc("fault.price_change")
	case 7, 8:
		h.opKind("head")
		h.headOp(c, op)
	case 9:
		h.opKind("reorg")
		h.reorgOp(c, op)
	case 10, 11:
		h.opKind("fire")
		ts := h.s.liveTickers()
		if len(ts) == 0 {
			return
		}
		t := ts[op.A%len(ts)]
		if op.Kind == 11 { // bias towards the reorg ticker: promotions only happen on its ticks
			for _, x := range ts {
				if strings.Contains(x.name, ":scheduleReorgLoop:") {
					t = x
				}
			}
		}
		ok := h.s.fire(t)
		lbl := tickerLabel(ts, t)
		if h.model != nil && lbl == "reorg" {
			h.model.runReorg(nil, nil)
		}
		h.s.event("op c%d fire %s delivered=%v", c.id, t.name, ok)
		c.log = append(c.log, "fire "+lbl)
		h.inc("fault.tick_" + lbl)
	case 12:
		h.opKind("advance-clock")
		d := advances[op.A%len(advances)]
		h.s.Sleep(d, "harness:0:advance")
		h.s.event("op c%d advance %v", c.id, d)
		c.log = append(c.log, fmt.Sprintf("advance %v", d))
		h.inc("fault.clock_jump")
	case 13:
		h.opKind("read")
		h.readOp(c, op)
	case 14:
		h.opKind("evict-combo") // clock jump past the lifetime followed by the eviction tick
		h.s.Sleep(lifetime+time.Second, "harness:0:advance")
		ts := h.s.liveTickers()
		for _, x := range ts {
			if tickerLabel(ts, x) == "evict" {
				h.s.fire(x)
			}
		}
		h.s.event("op c%d evict-combo", c.id)
		c.log = append(c.log, "advance+evict-tick")
		h.inc("fault.clock_jump")
		h.inc("fault.tick_evict_combo")
	case 15:
		h.opKind("qi")
		h.qiOp(c, op)
	}
}

// tickerLabel names a ticker by the function that created it (loop creates three: report, evict, journal, in source order).
func tickerLabel(sorted []*ticker, t *ticker) string {
	fn, _ := siteFunc(t.name)
	switch fn {
	case "loop":
		i := 0
		for _, x := range sorted {
			if x == t {
				break
			}
			if f, _ := siteFunc(x.name); f == "loop" {
				i++
			}
		}
		if i < 3 {
			return []string{"report", "evict", "journal"}[i]
		}
	case "scheduleReorgLoop":
		return "reorg"
	case "poolLimiterGoroutine":
		return "limiter"
	case "qiTxExpirationGoroutine":
		return "qi_expiry"
	}
	return fn
}

func (h *harness) readOp(c *client, op opT) {
	a := accounts[op.B%nAcc].in
	switch op.A % 7 {
	case 0:
		n := h.pool.Nonce(a)
		h.s.event("op c%d read nonce a%d = %d", c.id, op.B%nAcc, n)
	case 1:
		p, q, _ := h.pool.Stats()
		h.s.event("op c%d read stats %d %d", c.id, p, q)
	case 2:
		p, q := h.pool.Content()
		h.s.event("op c%d read content %d %d", c.id, len(p), len(q))
	case 3:
		p, q := h.pool.ContentFrom(a)
		h.s.event("op c%d read contentfrom %d %d", c.id, len(p), len(q))
	case 4:
		k := h.keyFor(op, 0)
		st := h.pool.Status([]common.Hash{newTx(k).Hash()})
		h.s.event("op c%d read status %s = %d", c.id, keyStr(k), st[0])
	case 5:
		l := h.pool.Locals()
		h.s.event("op c%d read locals %d", c.id, len(l))
	case 6:
		k := h.keyFor(op, 0)
		hash := newTx(k).Hash()
		h.s.event("op c%d read get %s = %v %v", c.id, keyStr(k), h.pool.Get(hash) != nil, h.pool.Has(hash))
	}
	c.log = append(c.log, fmt.Sprintf("read%d", op.A%7))
}

func (h *harness) nOpsInc()        { h.s.count("ops", 1) }
func (h *harness) opKind(k string) { h.s.count("op."+k, 1) }

// ---------------------------------------------------------------- run

func bubble(t *testing.T, f func(t *testing.T)) {
	defer func() {
		if r := recover(); r != nil {
			if s := fmt.Sprint(r); strings.HasPrefix(s, "deadlock") {
				return // goroutines of an aborted run that could not be ended
			}
			panic(r)
		}
	}()
	synctest.Test(t, f)
}

var watchdogLimit = 60 * time.Second

func watchdog() *time.Timer {
	return time.AfterFunc(watchdogLimit, func() {
		buf := make([]byte, 1<<20)
		n := runtime.Stack(buf, true)
		fmt.Fprintf(os.Stderr, "WATCHDOG: run exceeded %v\n%s\n", watchdogLimit, buf[:n])
		simkit.Global.Flush()
		os.Exit(2)
	})
}

const stepBudget = 200_000

func (h *harness) flush() { h.s.drain(func(l string) { h.tr.Event("%s", l) }) }

// settle: run until nothing is runnable; decide deadlock.
func (h *harness) settle(after string) bool {
	if !h.s.quiesce(stepBudget) {
		h.flush()
		h.fail("livelock", "no-quiescence after="+after, fmt.Sprintf("no quiescent point within %d scheduling steps", stepBudget))
		return false
	}
	h.flush()
	h.checkPanics(after)
	if h.violated() {
		return false
	}
	st := h.s.stuck()
	if len(st) == 0 {
		return true
	}
	// something waits for a lock or inside an operation: fire every ticker once; if that does not help it is a deadlock
	for _, t := range h.s.liveTickers() {
		h.s.fire(t)
		h.s.event("rescue-fire %s", t.name)
		if !h.s.quiesce(stepBudget) {
			break
		}
	}
	h.flush()
	h.checkPanics(after)
	if h.violated() {
		return false
	}
	st2 := h.s.stuck()
	if len(st2) == 0 {
		h.inc("probe.stall_resolved_by_ticker")
		return true
	}
	// witness: the goroutines that were stuck BEFORE the rescue ticks (the ticks only add bystanders that now queue
	// up behind the same locks); detail: everything that waits now
	var ds []string
	seen := map[string]bool{}
	for _, x := range st {
		d := x.desc + "(" + x.kind + ")"
		if !seen[d] {
			seen[d] = true
			ds = append(ds, d)
		}
	}
	detail := ""
	for _, x := range st2 {
		detail += fmt.Sprintf("  %s waits at %s (%s)\n", x.name, x.desc, x.kind)
	}
	sort.Strings(ds)
	h.fail("deadlock", "waits="+strings.Join(ds, ",")+" after="+after, "no goroutine can run and firing every ticker does not help:\n"+detail)
	return false
}

func (h *harness) checkPanics(after string) {
	for _, p := range h.s.panics() {
		fn, _ := siteFunc(p.site)
		h.fail("panic", "escaped goroutine="+fn+" after="+after, fmt.Sprintf("goroutine %s panicked: %v\n%s", p.name, p.val, p.stack))
	}
	h.logMu.Lock()
	defer h.logMu.Unlock()
	for _, p := range h.logPanics {
		first := strings.SplitN(p, "\n", 2)[0]
		h.fail("panic", "recovered-by-pool after="+after, "a pool goroutine panicked (recovered and logged by the pool):\n"+first+"\n"+p)
	}
}

func runTape(t *testing.T, cfg cfgT, rounds []roundT, tape []byte, seq bool) (res *harness) {
	h := &harness{cfg: cfg, tr: simkit.NewTrace(), resurrectable: map[common.Hash]bool{}}
	res = h
	wd := watchdog()
	defer wd.Stop()
	dir, err := os.MkdirTemp("", "poolsim-")
	if err != nil {
		panic(err)
	}
	h.dir = dir
	defer os.RemoveAll(dir)

	bubble(t, func(t *testing.T) {
		s := newSched(tape)
		h.s = s
		s.onAcquire = h.onAcquire
		core.VerifInstall(s.hooks())
		defer core.VerifInstall(nil)

		logger := logrus.New()
		logger.SetOutput(io.Discard)
		logger.SetLevel(logrus.ErrorLevel)
		logger.AddHook(h)

		var bal [nAcc]int64
		for i := range bal {
			bal[i] = balances[cfg.Bal[i]%len(balances)]
		}
		gl := uint64(highGasLimit)
		if cfg.GasLimit == 3 {
			gl = lowGasLimit
		}
		bf := int64(1)
		if cfg.BaseFee == 3 {
			bf = 2
		}
		h.chain = newStubChain(logger, bal, gl, bf)
		h.chain.maxTxWS = []uint64{64, 64, 3, 1}[cfg.MaxTxWS%4]
		h.pcfg = core.TxPoolConfig{
			NoLocals: cfg.NoLocals == 3, Rejournal: time.Second,
			PriceLimit: 1, PriceBump: 10,
			AccountSlots: uint64(cfg.AS), GlobalSlots: uint64(cfg.GS), AccountQueue: uint64(cfg.AQ), GlobalQueue: uint64(cfg.GQ),
			MaxSenders: 8, MaxFeesCached: 8, SendersChBuffer: 4,
			QiPoolSize: uint64(cfg.QiPool), QiTxLifetime: qiLifetime, Lifetime: lifetime, ReorgFrequency: time.Second,
		}
		if cfg.Journal == 1 {
			h.pcfg.Journal = filepath.Join(dir, "transactions.rlp")
		}
		chainCfg := &params.ChainConfig{ChainID: chainID, Location: locZone}
		db := rawdb.NewMemoryDatabase(logger)
		seedUtxos(db)
		h.chain.db = db
		h.chain.finishGenesis()
		h.tr.Event("cfg %+v", cfg)

		abort := func() {
			s.killAll(func() {
				if h.pool != nil {
					h.pool.VerifForceShutdown()
				}
				if h.chain.sub != nil {
					h.chain.sub.Unsubscribe()
				}
			})
		}

		// bring-up under the scheduler
		s.GoUser("harness:0:init", func() {
			h.pool = core.NewTxPool(h.pcfg, chainCfg, h.chain, logger, db)
		}, nil)
		if !h.settle("init") {
			abort()
			return
		}
		s.joinDone()
		if h.pool == nil {
			h.fail("deadlock", "waits=NewTxPool after=init", "NewTxPool did not return")
			abort()
			return
		}
		s.joinDone()
		h.muAddr = h.pool.VerifMu()
		if seq {
			h.model = newModel(h.chain.headRec(), h.pcfg.NoLocals, h.pcfg.PriceBump)
		}
		h.oracle("init", 2)

		var clients []*client
		for i := 0; i < cfg.Clients; i++ {
			clients = append(clients, &client{id: i})
		}
		for ri, r := range rounds {
			if h.violated() {
				break
			}
			last := ri == len(rounds)-1
			h.tr.Event("round %d", ri)
			for ci, c := range clients {
				if ci >= len(r.Ops) || len(r.Ops[ci]) == 0 {
					continue
				}
				ops := r.Ops[ci]
				c := c
				s.GoUser(fmt.Sprintf("harness:0:client%d", ci), func() {
					for _, op := range ops {
						s.Yield("harness:0:client:op", "op")
						h.exec(c, op)
					}
				}, c)
			}
			if last && cfg.StopInLast == 3 && os.Getenv("POOLSIM_STOP_CONCURRENT") != "" {
				// outside C19's quantifier (Stop is not one of its operations); kept as an opt-in experiment:
				// Stop() closes the journal without pool.mu, which races with a concurrent AddLocal
				h.stopped = true
				s.GoUser("harness:0:stop", func() { h.pool.Stop() }, nil)
				h.inc("fault.stop_concurrent")
			}
			if !h.settle(fmt.Sprintf("round")) {
				break
			}
			s.joinDone()
			for _, c := range clients {
				for _, x := range c.resurrect {
					h.resurrectable[x] = true
				}
				c.resurrect = nil
			}
			h.oracle("round", 1)
			if h.violated() || h.stopped {
				continue
			}
			if r.Settle > 0 || last {
				// let the reorg loop run once more so that every queued promotion request is served
				h.reorgTick()
				if !h.settle("settle") {
					break
				}
				h.oracle("settle", 2)
			}
			if (r.Settle > 1 || last) && !h.violated() {
				// full pass: an empty block on the same state makes the pool reset, i.e. run promotion (and with it
				// the per-account queue cap) for EVERY queued account; demotions into the queue (removeTx,
				// demoteUnexecutables) are otherwise only capped when that account is promoted next
				c := &client{id: 99}
				s.GoUser("harness:0:fullpass", func() { h.headOp(c, opT{Kind: 7, A: 3, D: 0}) }, c)
				if !h.settle("fullpass") {
					break
				}
				h.reorgTick()
				if !h.settle("fullpass") {
					break
				}
				s.joinDone()
				h.oracle("fullpass", 3)
			}
		}
		if h.violated() {
			abort()
			return
		}
		if !h.stopped {
			h.stopped = true
			s.GoUser("harness:0:stop", func() { h.pool.Stop() }, nil)
			if !h.settle("stop") {
				abort()
				return
			}
		}
		if names := s.alive(); len(names) > 0 {
			h.fail("deadlock", "waits=shutdown-leak after=stop", "goroutines still alive after Stop returned: "+strings.Join(names, "; "))
			abort()
			return
		}
		s.joinDone()
		h.oracle("stop", 1)
		for _, c := range clients {
			if len(c.log) > 0 {
				h.sample = append(h.sample, fmt.Sprintf("c%d: %s", c.id, strings.Join(c.log, "; ")))
			}
		}
	})
	return h
}

func (h *harness) reorgTick() {
	for _, t := range h.s.liveTickers() {
		if strings.Contains(t.name, ":scheduleReorgLoop:") {
			h.s.fire(t)
			h.tr.Event("settle-tick")
			if h.model != nil {
				h.model.runReorg(nil, nil)
			}
		}
	}
}

// GoUser is Sched.Go for goroutines created by the root (no yield of the creator) with user data.
//
//go:norace
func (s *Sched) GoUser(site string, fn func(), user any) *G {
	raceOff()
	s.mu.Lock()
	n := bump(&s.spawns, site)
	g := &G{name: site + "#" + strconv.Itoa(n), st: stRunning, kind: "spawn", site: site, wake: make(chan int), user: user}
	s.order = append(s.order, g)
	s.log = append(s.log, "spawn "+g.name)
	s.mu.Unlock()
	raceOn()
	started := make(chan struct{})
	go s.childMain(g, fn, started)
	raceOff()
	<-started
	raceOn()
	return g
}

// ---------------------------------------------------------------- property

func runProperty(rt *rapid.T, t *testing.T, single bool) {
	defer simkit.EndOnKnown()
	cfg := cfgGen.Draw(rt, "cfg")
	rounds := rapid.SliceOfN(roundGen, 1, 5).Draw(rt, "rounds")
	// schedule tape: an explicit prefix (which rapid can shrink) followed by a tail that is either all zeros
	// ("the first runnable goroutine in name order runs until it cannot") or the expansion of a drawn seed
	tape := rapid.SliceOfN(rapid.Byte(), 0, 400).Draw(rt, "sched")
	if tail := rapid.Uint64Range(0, 1<<32).Draw(rt, "schedTail"); tail%4 != 0 {
		x := tail
		for i := 0; i < 6000; i++ {
			x += 0x9e3779b97f4a7c15
			z := x
			z = (z ^ (z >> 30)) * 0xbf58476d1ce4e5b9
			z = (z ^ (z >> 27)) * 0x94d049bb133111eb
			tape = append(tape, byte((z^(z>>31))>>24))
		}
	}
	if single {
		// one client, one operation per round (operations are separated by quiescence), limits that never bind,
		// no clock advance: the regime in which the reference model is exact
		cfg.Clients, cfg.AS, cfg.GS, cfg.AQ, cfg.GQ = 1, 64, 64, 64, 64
		var seqRounds []roundT
		for _, r := range rounds {
			var flat []opT
			for _, l := range r.Ops {
				flat = append(flat, l...)
			}
			for i, op := range flat {
				if op.Kind == 12 || op.Kind == 14 {
					op.Kind = 13
				}
				st := 0
				if i == len(flat)-1 {
					st = r.Settle
				}
				seqRounds = append(seqRounds, roundT{Ops: [][]opT{{op}}, Settle: st})
			}
		}
		if len(seqRounds) == 0 {
			seqRounds = []roundT{{Ops: [][]opT{{}}, Settle: 1}}
		}
		rounds = seqRounds
	}
	t0 := time.Now()
	h := runTape(t, cfg, rounds, tape, single)
	G := simkit.Global
	G.Inc("runs")
	G.Add("wall_us", time.Since(t0).Microseconds())
	nOps, kinds, preempt := 0, 0, 0
	if h.s != nil {
		G.Add("decisions", int64(h.s.decisions))
		G.Add("tape_used", int64(h.s.pos))
		G.Add("tape_exhausted_draws", int64(h.s.exhausted))
		G.Add("fault.forced_preemption", int64(h.s.preemptions))
		G.Add("probe.lock_contended", int64(h.s.contended))
		G.Add("fault.map_order_permuted", int64(h.s.mapDraws))
		G.Add("fault.select_choice", int64(h.s.selDraws))
		G.Add("oracle_evaluations", int64(h.oracleN))
		preempt = h.s.preemptions
		for _, c := range h.s.counters() {
			G.Add(c.key, int64(c.n))
			if c.key == "ops" {
				nOps = c.n
			} else if strings.HasPrefix(c.key, "op.") {
				kinds++
			}
		}
	}
	dig := h.tr.Digest()
	if os.Getenv("POOLSIM_DUMP") != "" {
		for _, l := range h.tr.Log {
			fmt.Println("DUMP", dig, l)
		}
	}
	G.Seen("trace", dig)
	// non-trivial: >= 4 executed client ops of >= 3 kinds and at least one forced preemption (a goroutine that
	// could have continued lost the scheduling decision to another one)
	if nOps >= 4 && kinds >= 3 && preempt >= 1 {
		G.Seen("nontrivial", dig)
	}
	G.Sample(map[string]any{"cfg": fmt.Sprintf("%+v", cfg), "clients": h.sample, "decisions": h.s.decisions, "trace_events": h.tr.Len()})
	if v := h.s.violation(); v != nil {
		if simkit.Violation(rt, h.tr, P, v.class, v.witness, v.detail) {
			panic(simkit.KnownReached{})
		}
	}
}

// TestC19Seq: single client against the sequential reference model (see model_test.go).
func TestC19Seq(t *testing.T) {
	rapid.Check(t, func(rt *rapid.T) { runProperty(rt, t, true) })
}

func TestC19(t *testing.T) {
	rapid.Check(t, func(rt *rapid.T) { runProperty(rt, t, false) })
}
