package poolsim

// Qi (UTXO) transactions for the pool's Qi side: a fixed universe of unspent
// outputs owned by one key, written into the database the pool reads UTXOs from,
// and one Schnorr-signed spend per output.

import (
	"crypto/sha256"
	"fmt"
	"math/big"
	"sync"

	"github.com/btcsuite/btcd/btcec/v2"
	"github.com/btcsuite/btcd/btcec/v2/schnorr"
	"github.com/dominant-strategies/go-quai/common"
	"github.com/dominant-strategies/go-quai/core/rawdb"
	"github.com/dominant-strategies/go-quai/core/types"
	"github.com/dominant-strategies/go-quai/crypto"
	"github.com/dominant-strategies/go-quai/ethdb"
)

const nQi = 6

var (
	qiOnce   sync.Once
	qiProtos [nQi + 1]types.TxData // the last one spends an output that does not exist
	qiHashes [nQi + 1]common.Hash
	qiDest   account
)

func utxoHash(i int) common.Hash {
	return common.Hash(sha256.Sum256([]byte(fmt.Sprintf("verif-poolsim/utxo/%d", i))))
}

func buildQi() {
	qiDest = grindKey("qi-dest", true)
	priv, _ := btcec.PrivKeyFromBytes(crypto.FromECDSA(qiAccount.key))
	pub := crypto.FromECDSAPub(&qiAccount.key.PublicKey)
	for i := 0; i <= nQi; i++ {
		inner := &types.QiTx{
			ChainID: chainID,
			TxIn:    types.TxIns{{PreviousOutPoint: types.OutPoint{TxHash: utxoHash(i), Index: 0}, PubKey: pub}},
			TxOut:   types.TxOuts{{Denomination: 12, Address: qiDest.addr.Bytes()}},
		}
		digest := signer.Hash(types.NewTx(inner))
		sig, err := schnorr.Sign(priv, digest[:])
		if err != nil {
			panic(err)
		}
		inner.Signature = sig
		tx := types.NewTx(inner)
		qiProtos[i] = tx.Inner()
		qiHashes[i] = tx.Hash()
	}
}

// seedUtxos writes the spendable outputs (all but the last index) into the pool's database.
func seedUtxos(db ethdb.KeyValueWriter) {
	qiOnce.Do(buildQi)
	for i := 0; i < nQi; i++ {
		if err := rawdb.CreateUTXO(db, utxoHash(i), 0, &types.UtxoEntry{Denomination: 14, Address: qiAccount.addr.Bytes(), Lock: big.NewInt(0)}); err != nil {
			panic(err)
		}
	}
}

func newQiTx(i int) *types.Transaction { return types.NewTx(qiProtos[i%(nQi+1)]) }
