package poolsim

// The controlled scheduler of S4 poolsim (DESIGN §2.4): real goroutines, but
// which of them proceeds at every lock acquisition / channel operation / spawn in
// the rewritten tx_pool.go is decided by the tape.
//
// Protocol.  Every controlled goroutine is in one of three states: parked (inside
// Yield/Acquire, blocked on its private wake channel), running (released by the
// scheduler) or done.  The scheduler (the root goroutine of the synctest bubble)
// loops: synctest.Wait() -> every other goroutine of the bubble is durably blocked
// -> a goroutine still marked running is blocked inside the runtime (channel
// operation, WaitGroup) and is out of the game until it reports back through
// Resume -> the runnable set is the parked goroutines whose wait condition can be
// met (a lock waiter is runnable only if a try-lock probe succeeds and, for
// readers, no writer is queued) -> sort by name -> tape[i] mod len -> release
// exactly that one.
//
// Race builds: all scheduler functions are //go:norace and bracket their
// synchronisation with raceOff/raceOn, so that the scheduler is invisible to the
// race detector (see race_on_test.go).  No maps and no close() on shared
// scheduler state for the same reason (the runtime reports those accesses itself).

import (
	"fmt"
	"reflect"
	"runtime"
	"sort"
	"strconv"
	"strings"
	"sync"
	"testing/synctest"
	"time"
	"unsafe"

	"github.com/dominant-strategies/go-quai/core"
)

var knownRaceAddr byte

// knownRace orders the statements of an open, recorded race finding among themselves (race builds only), so that
// the detector is not stopped by the same report in every run.  See rewrite.json "knownRaces".
func knownRace(id string, begin bool) {
	if begin {
		raceAcquire(unsafePtr(&knownRaceAddr))
	} else {
		raceRelease(unsafePtr(&knownRaceAddr))
	}
}

// ints formats like fmt's %v without touching fmt (whose pooled printers must not be used while the race
// detector ignores synchronisation).
func ints(v []int) string {
	out := "["
	for i, x := range v {
		if i > 0 {
			out += " "
		}
		out += strconv.Itoa(x)
	}
	return out + "]"
}

func unsafePtr(p *byte) unsafe.Pointer { return unsafe.Pointer(p) }

const (
	stRunning = iota
	stParked
	stDone
)

const (
	cmdGo   = 0
	cmdExit = 1
)

type G struct {
	id      int64
	name    string
	st      int
	kind    string // kind of the yield it is parked at (or was last released from)
	site    string
	lock    any
	write   bool
	blocked bool // observed blocked inside the runtime after it was released
	wake    chan int
	dur     time.Duration // kind == "advance"
	panicV  any
	stack   string
	user    any
	sync    byte // address used for explicit happens-before edges to the root (race builds)
}

type ticker struct {
	name    string
	ch      chan time.Time
	stopped bool
}

type counter struct {
	key string
	n   int
}

type lockQ struct {
	l any
	q []*G
}

type Sched struct {
	mu      sync.Mutex
	live    []*G // registered, not done
	order   []*G // all, in spawn order
	spawns  []counter
	tickN   []counter
	tape    []byte
	pos     int
	log     []string // trace events not yet handed to the trace (root drains)
	killing bool
	writers []lockQ
	tickers []*ticker
	cur     *G

	decisions   int
	preemptions int
	contended   int
	exhausted   int
	mapDraws    int
	selDraws    int
	maxRunnable int
	stats       []counter
	viol        *violation

	// onAcquire is called (in the acquiring goroutine, the only one running) after a lock was obtained.
	onAcquire func(g *G, l any, write bool)
}

func newSched(tape []byte) *Sched { return &Sched{tape: tape} }

func goid() int64 {
	var buf [64]byte
	n := runtime.Stack(buf[:], false)
	var id int64
	for _, c := range buf[len("goroutine "):n] {
		if c < '0' || c > '9' {
			break
		}
		id = id*10 + int64(c-'0')
	}
	return id
}

func (s *Sched) hooks() *core.VerifHooks {
	return &core.VerifHooks{
		Yield: s.Yield, Resume: s.Resume, Acquire: s.Acquire, Go: s.hookGo, Select: s.Select,
		MapOrder: s.MapOrder, Now: time.Now, KnownRace: knownRace, NewTicker: s.NewTicker, NewTimer: s.NewTimer, Sleep: s.Sleep,
	}
}

//go:norace
func bump(cs *[]counter, key string) int {
	for i := range *cs {
		if (*cs)[i].key == key {
			(*cs)[i].n++
			return (*cs)[i].n - 1
		}
	}
	*cs = append(*cs, counter{key, 1})
	return 0
}

// draw consumes one tape entry for a choice among n > 1 alternatives (s.mu held).
//
//go:norace
func (s *Sched) draw(n int) int {
	if n <= 1 {
		return 0
	}
	if s.pos >= len(s.tape) {
		s.exhausted++
		return 0
	}
	v := int(s.tape[s.pos]) % n
	s.pos++
	return v
}

//go:norace
func (s *Sched) me() *G {
	id := goid()
	raceOff()
	s.mu.Lock()
	var g *G
	for _, x := range s.live {
		if x.id == id {
			g = x
			break
		}
	}
	s.mu.Unlock()
	raceOn()
	if g == nil {
		panic(fmt.Sprintf("poolsim: hook called from an uncontrolled goroutine %d", id))
	}
	return g
}

// event appends a line to the run's trace (any controlled goroutine, or the root).
//
//go:norace
func (s *Sched) event(format string, args ...any) {
	line := fmt.Sprintf(format, args...)
	raceOff()
	s.mu.Lock()
	s.log = append(s.log, line)
	s.mu.Unlock()
	raceOn()
}

// drain hands the buffered events to f (root only).
//
//go:norace
func (s *Sched) drain(f func(string)) {
	raceOff()
	s.mu.Lock()
	l := s.log
	s.log = nil
	s.mu.Unlock()
	raceOn()
	for _, x := range l {
		f(x)
	}
}

// park blocks the calling goroutine until the scheduler releases it.
//
//go:norace
func (s *Sched) park(g *G, kind, site string, lock any, write bool, dur time.Duration) {
	raceOff()
	s.mu.Lock()
	if s.killing {
		s.mu.Unlock()
		raceOn()
		runtime.Goexit()
	}
	g.st, g.kind, g.site, g.lock, g.write, g.dur, g.blocked = stParked, kind, site, lock, write, dur, false
	s.mu.Unlock()
	cmd := <-g.wake
	raceOn()
	if cmd == cmdExit {
		runtime.Goexit()
	}
}

//go:norace
func (s *Sched) Yield(site, kind string) { s.park(s.me(), kind, site, nil, false, 0) }

// Resume: a goroutine that the scheduler saw blocked in the runtime has been woken
// by somebody else's step; it parks at once so that it does not run concurrently
// with the goroutine that woke it.  A goroutine whose operation did not block is
// still the one running goroutine and simply goes on.
//
//go:norace
func (s *Sched) Resume(site string) {
	g := s.me()
	raceOff()
	s.mu.Lock()
	blocked := g.blocked
	s.mu.Unlock()
	raceOn()
	if blocked {
		s.park(g, "resume", site, nil, false, 0)
	}
}

// Select: yield, then choose (by the tape) among the cases that are ready now.  Readiness is read without
// consuming anything: buffered channels by length, a closed channel by a try-receive (which on a closed channel
// changes nothing).  An unbuffered channel with a waiting sender cannot be probed; the pool has none.
//
//go:norace
func (s *Sched) Select(site, kind string, chans []any, send []bool) int {
	g := s.me()
	s.park(g, kind, site, nil, false, 0)
	raceOff()
	var ready []int
	for i, c := range chans {
		v := reflect.ValueOf(c)
		if !v.IsValid() || v.IsNil() {
			continue
		}
		if send[i] {
			if v.Len() < v.Cap() {
				ready = append(ready, i)
			}
			continue
		}
		if v.Len() > 0 {
			ready = append(ready, i)
			continue
		}
		if x, ok := v.TryRecv(); x.IsValid() {
			if ok {
				panic("poolsim: readiness probe consumed a value from an unbuffered channel at " + site)
			}
			ready = append(ready, i) // closed
		}
	}
	chosen := -1
	if len(ready) > 0 {
		s.mu.Lock()
		chosen = ready[s.draw(len(ready))]
		if len(ready) > 1 {
			s.selDraws++
			s.log = append(s.log, "select "+site+" ready="+ints(ready)+" case="+strconv.Itoa(chosen))
		}
		s.mu.Unlock()
	}
	raceOn()
	return chosen
}

//go:norace
func (s *Sched) wq(l any) *lockQ {
	for i := range s.writers {
		if s.writers[i].l == l {
			return &s.writers[i]
		}
	}
	s.writers = append(s.writers, lockQ{l: l})
	return &s.writers[len(s.writers)-1]
}

func tryLock(l any, write bool) bool {
	switch m := l.(type) {
	case *sync.RWMutex:
		if write {
			return m.TryLock()
		}
		return m.TryRLock()
	case *sync.Mutex:
		return m.TryLock()
	}
	panic(fmt.Sprintf("poolsim: unknown lock type %T", l))
}

func unlock(l any, write bool) {
	switch m := l.(type) {
	case *sync.RWMutex:
		if write {
			m.Unlock()
		} else {
			m.RUnlock()
		}
	case *sync.Mutex:
		m.Unlock()
	}
}

// Acquire is the body of the rewritten X.Lock(): for !X.TryLock() { blockedOn(&X) }.
// A reader does not even try while a writer is queued (sync.RWMutex semantics:
// a blocked Lock call excludes new readers).
//
//go:norace
func (s *Sched) Acquire(l any, write bool, site string) {
	g := s.me()
	first := true
	for {
		raceOff()
		s.mu.Lock()
		if s.killing {
			s.mu.Unlock()
			raceOn()
			runtime.Goexit()
		}
		q := s.wq(l)
		writerQueued := false
		if !write && len(q.q) > 0 {
			writerQueued = true
		}
		s.mu.Unlock()
		raceOn()
		ok := false
		if !writerQueued {
			ok = tryLock(l, write) // a real acquire for the race detector
		}
		raceOff()
		s.mu.Lock()
		if write {
			q = s.wq(l)
			idx := -1
			for i, w := range q.q {
				if w == g {
					idx = i
				}
			}
			if ok && idx >= 0 {
				for j := idx; j < len(q.q)-1; j++ { // no copy()/append(...): the runtime reports those to the race detector itself
					q.q[j] = q.q[j+1]
				}
				q.q = q.q[:len(q.q)-1]
			} else if !ok && idx < 0 {
				q.q = append(q.q, g)
			}
		}
		if !ok && first {
			s.contended++
		}
		s.mu.Unlock()
		raceOn()
		if ok {
			if s.onAcquire != nil {
				s.onAcquire(g, l, write)
			}
			return
		}
		first = false
		s.park(g, "lockwait", site, l, write, 0)
	}
}

// probe reports whether a lock waiter could get its lock now (root; all goroutines stopped; s.mu held, race off).
//
//go:norace
func (s *Sched) probe(g *G) bool {
	if !g.write && len(s.wq(g.lock).q) > 0 {
		return false
	}
	if tryLock(g.lock, g.write) {
		unlock(g.lock, g.write)
		return true
	}
	return false
}

//go:norace
func (s *Sched) hookGo(site string, fn func()) { s.Go(site, fn, true) }

// Go starts fn as a controlled goroutine named after its spawn site and ordinal.
//
//go:norace
func (s *Sched) Go(site string, fn func(), yieldFirst bool) *G {
	if yieldFirst {
		s.Yield(site, "go")
	}
	raceOff()
	s.mu.Lock()
	n := bump(&s.spawns, site)
	g := &G{name: site + "#" + strconv.Itoa(n), st: stRunning, kind: "spawn", site: site, wake: make(chan int)}
	s.order = append(s.order, g)
	s.log = append(s.log, "spawn "+g.name)
	s.mu.Unlock()
	raceOn()
	started := make(chan struct{})
	go s.childMain(g, fn, started) // the go statement itself is a real happens-before edge (as in the original code)
	raceOff()
	<-started
	raceOn()
	return g
}

//go:norace
func (s *Sched) childMain(g *G, fn func(), started chan struct{}) {
	g.id = goid()
	raceOff()
	s.mu.Lock()
	s.live = append(s.live, g)
	s.mu.Unlock()
	started <- struct{}{}
	raceOn()
	defer s.childExit(g)
	s.park(g, "start", g.site, nil, false, 0)
	fn()
}

//go:norace
func (s *Sched) childExit(g *G) {
	r := recover()
	raceRelease(unsafePtr(&g.sync))
	raceOff()
	s.mu.Lock()
	if r != nil {
		g.panicV = r
		buf := make([]byte, 8192)
		g.stack = string(buf[:runtime.Stack(buf, false)])
	}
	g.st = stDone
	for i, x := range s.live {
		if x == g {
			for j := i; j < len(s.live)-1; j++ {
				s.live[j] = s.live[j+1]
			}
			s.live = s.live[:len(s.live)-1]
			break
		}
	}
	s.mu.Unlock()
	raceOn()
}

//go:norace
func (s *Sched) MapOrder(n int, site string) []int {
	raceOff()
	s.mu.Lock()
	perm := make([]int, n)
	for i := range perm {
		perm[i] = i
	}
	for i := 0; i < n-1; i++ {
		j := i + s.draw(n-i)
		perm[i], perm[j] = perm[j], perm[i]
	}
	s.mapDraws++
	s.log = append(s.log, "maporder "+site+" "+ints(perm))
	s.mu.Unlock()
	raceOn()
	return perm
}

//go:norace
func (s *Sched) NewTicker(d time.Duration, site string) (<-chan time.Time, func(), func(time.Duration)) {
	raceOff()
	s.mu.Lock()
	n := bump(&s.tickN, site)
	t := &ticker{name: site + "#" + strconv.Itoa(n), ch: make(chan time.Time, 1)}
	s.tickers = append(s.tickers, t)
	s.mu.Unlock()
	raceOn()
	return t.ch, func() { s.stopTicker(t) }, func(time.Duration) {}
}

//go:norace
func (s *Sched) stopTicker(t *ticker) {
	raceOff()
	s.mu.Lock()
	t.stopped = true
	s.mu.Unlock()
	raceOn()
}

func (s *Sched) NewTimer(d time.Duration, f func(), site string) (<-chan time.Time, func() bool, func(time.Duration) bool) {
	panic("poolsim: timers are not used by the rewritten files; site " + site)
}

//go:norace
func (s *Sched) Sleep(d time.Duration, site string) { s.park(s.me(), "advance", site, nil, false, d) }

// liveTickers returns the not-stopped tickers sorted by name.
//
//go:norace
func (s *Sched) liveTickers() []*ticker {
	raceOff()
	s.mu.Lock()
	var out []*ticker
	for _, t := range s.tickers {
		if !t.stopped {
			out = append(out, t)
		}
	}
	s.mu.Unlock()
	raceOn()
	sort.Slice(out, func(i, j int) bool { return out[i].name < out[j].name })
	return out
}

// fire delivers one tick (dropped, like time.Ticker, if the previous one was not consumed).
// This is a real channel send: the receiver is ordered after the firing goroutine, as with a runtime timer.
func (s *Sched) fire(t *ticker) bool {
	select {
	case t.ch <- time.Now():
		return true
	default:
		return false
	}
}

// step releases one runnable goroutine; false if none is runnable.
//
//go:norace
func (s *Sched) step() bool {
	synctest.Wait()
	raceOff()
	s.mu.Lock()
	var run []*G
	for _, g := range s.live {
		switch g.st {
		case stRunning:
			g.blocked = true
		case stParked:
			if g.kind == "lockwait" && !s.probe(g) {
				continue
			}
			run = append(run, g)
		}
	}
	if len(run) == 0 {
		s.mu.Unlock()
		raceOn()
		return false
	}
	sortG(run)
	if len(run) > s.maxRunnable {
		s.maxRunnable = len(run)
	}
	g := run[s.draw(len(run))]
	s.decisions++
	if s.cur != nil && s.cur != g && s.cur.st == stParked {
		for _, r := range run {
			if r == s.cur {
				s.preemptions++
			}
		}
	}
	s.cur = g
	s.log = append(s.log, "run "+g.name+" at "+g.kind+"/"+g.site+" of "+strconv.Itoa(len(run)))
	dur := time.Duration(0)
	if g.kind == "advance" {
		dur = g.dur
	}
	g.st = stRunning
	s.mu.Unlock()
	if dur > 0 {
		time.Sleep(dur) // every other goroutine is durably blocked: the bubble's clock jumps by dur
	}
	g.wake <- cmdGo
	raceOn()
	return true
}

//go:norace
func sortG(gs []*G) {
	for i := 1; i < len(gs); i++ {
		for j := i; j > 0 && gs[j].name < gs[j-1].name; j-- {
			gs[j], gs[j-1] = gs[j-1], gs[j]
		}
	}
}

// quiesce runs until no controlled goroutine is runnable.
func (s *Sched) quiesce(maxSteps int) bool {
	for i := 0; i < maxSteps; i++ {
		if !s.step() {
			return true
		}
	}
	return false
}

type stuckInfo struct {
	name string
	desc string
	kind string
}

// a service goroutine blocked in the select of its own main loop is idle, not stuck.
var idleFuncs = map[string]bool{"loop": true, "scheduleReorgLoop": true, "txListenerLoop": true, "sendersGoroutine": true,
	"feesGoroutine": true, "poolLimiterGoroutine": true, "invalidQiTxGoroutine": true, "qiTxExpirationGoroutine": true}

func siteFunc(site string) (fn, detail string) {
	p := strings.SplitN(site, ":", 4)
	if len(p) >= 3 {
		fn = p[2]
	}
	if len(p) == 4 {
		detail = p[3]
	}
	return
}

// stuck lists the live goroutines that are neither runnable nor idle (call after quiesce).
//
//go:norace
func (s *Sched) stuck() []stuckInfo {
	raceOff()
	s.mu.Lock()
	var out []stuckInfo
	for _, g := range s.live {
		fn, detail := siteFunc(g.site)
		if g.st == stRunning {
			if g.kind == "select" && idleFuncs[fn] && detail == "select" {
				continue
			}
			out = append(out, stuckInfo{g.name, fn + ":" + detail, g.kind})
		} else if g.st == stParked {
			out = append(out, stuckInfo{g.name, fn + ":" + detail, g.kind})
		}
	}
	s.mu.Unlock()
	raceOn()
	return out
}

//go:norace
func (s *Sched) alive() (names []string) {
	raceOff()
	s.mu.Lock()
	for _, g := range s.live {
		names = append(names, g.name+"@"+g.kind+"/"+g.site)
	}
	s.mu.Unlock()
	raceOn()
	return
}

type panicInfo struct {
	name, site, stack string
	val               any
}

//go:norace
func (s *Sched) panics() (out []panicInfo) {
	raceOff()
	s.mu.Lock()
	for _, g := range s.order {
		if g.panicV != nil {
			out = append(out, panicInfo{g.name, g.site, g.stack, g.panicV})
		}
	}
	s.mu.Unlock()
	raceOn()
	return
}

// joinAll makes the root happen-after everything the finished goroutines did (race builds).
//
//go:norace
func (s *Sched) joinDone() {
	raceOff()
	s.mu.Lock()
	var done []*G
	for _, g := range s.order {
		if g.st == stDone {
			done = append(done, g)
		}
	}
	s.mu.Unlock()
	raceOn()
	for _, g := range done {
		raceAcquire(unsafePtr(&g.sync))
	}
}

// killAll ends every controlled goroutine that can still be reached (aborted runs).
//
//go:norace
func (s *Sched) killAll(unblock func()) {
	raceOff()
	s.mu.Lock()
	s.killing = true
	s.mu.Unlock()
	raceOn()
	for iter := 0; iter < 64; iter++ {
		synctest.Wait()
		raceOff()
		s.mu.Lock()
		var parked []*G
		alive := len(s.live)
		for _, g := range s.live {
			if g.st == stParked {
				parked = append(parked, g)
				g.st = stRunning
			}
		}
		s.mu.Unlock()
		raceOn()
		if alive == 0 {
			return
		}
		if len(parked) == 0 {
			if unblock == nil {
				return
			}
			unblock()
			unblock = nil
			continue
		}
		raceOff()
		for _, g := range parked {
			g.wake <- cmdExit
		}
		raceOn()
	}
}

// count adds to a per-run statistic (any goroutine; invisible to the race detector like the rest of the scheduler).
//
//go:norace
func (s *Sched) count(key string, n int) {
	raceOff()
	s.mu.Lock()
	found := false
	for i := range s.stats {
		if s.stats[i].key == key {
			s.stats[i].n += n
			found = true
			break
		}
	}
	if !found {
		s.stats = append(s.stats, counter{key, n})
	}
	s.mu.Unlock()
	raceOn()
}

//go:norace
func (s *Sched) counters() []counter {
	raceOff()
	s.mu.Lock()
	out := make([]counter, 0, len(s.stats))
	for _, c := range s.stats {
		out = append(out, c)
	}
	s.mu.Unlock()
	raceOn()
	return out
}

//go:norace
func (s *Sched) setViolation(v *violation) {
	raceOff()
	s.mu.Lock()
	if s.viol == nil {
		s.viol = v
	}
	s.mu.Unlock()
	raceOn()
}

//go:norace
func (s *Sched) violation() *violation {
	raceOff()
	s.mu.Lock()
	v := s.viol
	s.mu.Unlock()
	raceOn()
	return v
}
