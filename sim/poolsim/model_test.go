package poolsim

// Sequential reference model of the Quai side of the pool (TestC19Seq): per
// account two nonce-indexed maps (pending, queue) plus the admission rules, for
// the regime in which it can be exact: ONE client whose operations are separated
// by quiescence, limits so large that no truncation or pool-full eviction can
// happen, no clock advance (no lifetime eviction).  Within that regime the pool's
// content after every operation and the verdict of every add are a function of
// the operation sequence alone (the scheduler's choices commute), so the model
// must agree exactly.

import (
	"fmt"
	"math/big"
	"sort"

	"github.com/dominant-strategies/go-quai/common"
	"github.com/dominant-strategies/go-quai/core"
	"github.com/dominant-strategies/go-quai/core/types"
)

type mtx struct {
	hash    common.Hash
	acct    int
	nonce   uint64
	price   *big.Int
	cost    *big.Int
	gas     uint64
	badSig  bool // signed for another chain id
	isLocal bool // stored in the "locals" half of the hash index
}

type model struct {
	pending, queue [nAcc]map[uint64]*mtx
	all            map[common.Hash]*mtx
	locals         [nAcc]bool
	noLocals       bool
	gasPrice       *big.Int
	bump           uint64
	state          [nAcc]acctState // the state the pool validates against
	maxGas         uint64
	noncer         map[int]uint64
	dirty          map[int]bool
	head           *blockRec
}

func newModel(head *blockRec, noLocals bool, bump uint64) *model {
	m := &model{all: map[common.Hash]*mtx{}, noLocals: noLocals, gasPrice: big.NewInt(1), bump: bump, noncer: map[int]uint64{}, dirty: map[int]bool{}}
	for i := range m.pending {
		m.pending[i], m.queue[i] = map[uint64]*mtx{}, map[uint64]*mtx{}
	}
	m.setState(head)
	return m
}

func (m *model) setState(b *blockRec) {
	m.head = b
	m.state = b.accts
	m.maxGas = b.wo.GasLimit()
	m.noncer = map[int]uint64{}
}

func mtxOf(tx *types.Transaction) *mtx {
	x := &mtx{hash: tx.Hash(), nonce: tx.Nonce(), price: tx.GasPrice(), cost: tx.Cost(), gas: tx.Gas()}
	x.badSig = tx.ChainId().Cmp(chainID) != 0
	// the sender is the key holder whatever chain id was signed
	from, err := types.Sender(types.NewSigner(tx.ChainId(), locZone), tx)
	if err != nil {
		panic(err)
	}
	in, _ := from.InternalAndQuaiAddress()
	x.acct = acctIndex[in]
	return x
}

func (m *model) nonceGet(a int) uint64 {
	if _, ok := m.noncer[a]; !ok {
		m.noncer[a] = m.state[a].nonce
	}
	return m.noncer[a]
}
func (m *model) nonceSetIfLower(a int, n uint64) {
	if m.nonceGet(a) > n {
		m.noncer[a] = n
	}
}

// listAdd is txList.Add: insert, or replace the occupant if the price rule allows.
func (m *model) listAdd(l map[uint64]*mtx, x *mtx) (inserted bool, old *mtx) {
	old = l[x.nonce]
	if old != nil {
		if old.price.Cmp(x.price) >= 0 {
			return false, nil
		}
		if x.price.Cmp(threshold(old.price, m.bump)) < 0 {
			return false, nil
		}
	}
	l[x.nonce] = x
	return true, old
}

// add is TxPool.add for a pool that is never full; baseFee is the chain head's.
func (m *model) add(x *mtx, local bool, baseFee *big.Int) string {
	if _, known := m.all[x.hash]; known {
		return "known"
	}
	isLocal := local || (!x.badSig && m.locals[x.acct])
	// validateTx
	switch {
	case m.maxGas < x.gas:
		return "gas-limit"
	case baseFee.Cmp(x.price) > 0:
		return "base-fee"
	case x.price.Cmp(m.gasPrice) < 0:
		return "underpriced"
	case m.state[x.acct].nonce > x.nonce:
		return "nonce-low"
	case m.state[x.acct].bal.Cmp(x.cost) < 0:
		return "funds"
	}
	if x.badSig {
		return "invalid-chain"
	}
	a := x.acct
	if _, overlap := m.pending[a][x.nonce]; overlap {
		ins, old := m.listAdd(m.pending[a], x)
		if !ins {
			return "replace-underpriced"
		}
		if old != nil {
			delete(m.all, old.hash)
		}
		x.isLocal = isLocal
		m.all[x.hash] = x
		return "ok" // replaced: the account is not marked dirty
	}
	ins, old := m.listAdd(m.queue[a], x)
	if !ins {
		return "replace-underpriced"
	}
	if old != nil {
		delete(m.all, old.hash)
	}
	x.isLocal = isLocal
	m.all[x.hash] = x
	if local && !m.locals[a] {
		m.locals[a] = true
		for _, y := range m.all { // RemoteToLocals
			if y.acct == a {
				y.isLocal = true
			}
		}
	}
	if old == nil {
		m.dirty[a] = true
	}
	return "ok"
}

// addBatch is addTxs: transactions already known when the call starts are answered "known" up front and are not
// processed any further (even if an earlier transaction of the same batch displaces them meanwhile).
func (m *model) addBatch(xs []*mtx, local bool, baseFee *big.Int) []string {
	out := make([]string, len(xs))
	for i, x := range xs {
		if _, known := m.all[x.hash]; known {
			out[i] = "known"
		}
	}
	for i, x := range xs {
		if out[i] == "" {
			out[i] = m.add(x, local, baseFee)
		}
	}
	return out
}

func (m *model) removeTx(x *mtx) {
	if _, ok := m.all[x.hash]; !ok {
		return
	}
	delete(m.all, x.hash)
	a := x.acct
	if p := m.pending[a][x.nonce]; p != nil && p.hash == x.hash {
		delete(m.pending[a], x.nonce)
		for n, y := range m.pending[a] { // strict list: everything above is postponed
			if n > x.nonce {
				delete(m.pending[a], n)
				m.listAdd(m.queue[a], y)
			}
		}
		m.nonceSetIfLower(a, x.nonce)
		return
	}
	if q := m.queue[a][x.nonce]; q != nil && q.hash == x.hash {
		delete(m.queue[a], x.nonce)
	}
}

func (m *model) setGasPrice(p *big.Int) {
	old := m.gasPrice
	m.gasPrice = p
	if p.Cmp(old) > 0 {
		var drop []*mtx
		for _, x := range m.all {
			if !x.isLocal && x.price.Cmp(p) < 0 {
				drop = append(drop, x)
			}
		}
		for _, x := range drop {
			m.removeTx(x)
		}
	}
}

func sortedNonces(l map[uint64]*mtx) []uint64 {
	out := make([]uint64, 0, len(l))
	for n := range l {
		out = append(out, n)
	}
	sort.Slice(out, func(i, j int) bool { return out[i] < out[j] })
	return out
}

func (m *model) promote(accts []int) {
	for _, a := range accts {
		q := m.queue[a]
		if len(q) == 0 {
			continue
		}
		for _, n := range sortedNonces(q) {
			x := q[n]
			if n < m.state[a].nonce || x.cost.Cmp(m.state[a].bal) > 0 || x.gas > m.maxGas {
				delete(q, n)
				delete(m.all, x.hash)
			}
		}
		// Ready: the contiguous run that starts at the lowest queued nonce, provided that one is <= the pending nonce
		start := m.nonceGet(a)
		ns := sortedNonces(q)
		if len(ns) > 0 && ns[0] <= start {
			for next := ns[0]; ; next++ {
				x, ok := q[next]
				if !ok {
					break
				}
				delete(q, next)
				ins, old := m.listAdd(m.pending[a], x)
				if !ins {
					delete(m.all, x.hash)
					continue
				}
				if old != nil {
					delete(m.all, old.hash)
				}
				m.noncer[a] = x.nonce + 1
			}
		}
	}
}

func (m *model) demote() {
	for a := 0; a < nAcc; a++ {
		p := m.pending[a]
		if len(p) == 0 {
			continue
		}
		st := m.state[a]
		lowestDropped, dropped := uint64(0), false
		for _, n := range sortedNonces(p) {
			x := p[n]
			if n < st.nonce {
				delete(p, n)
				delete(m.all, x.hash)
			}
		}
		for _, n := range sortedNonces(p) {
			x := p[n]
			if x.cost.Cmp(st.bal) > 0 || x.gas > m.maxGas {
				if !dropped || n < lowestDropped {
					lowestDropped, dropped = n, true
				}
				delete(p, n)
				delete(m.all, x.hash)
			}
		}
		if dropped {
			for _, n := range sortedNonces(p) {
				if n > lowestDropped {
					x := p[n]
					delete(p, n)
					m.listAdd(m.queue[a], x)
				}
			}
		}
		if len(p) > 0 {
			if _, ok := p[st.nonce]; !ok { // gap in front
				for _, n := range sortedNonces(p) {
					x := p[n]
					delete(p, n)
					m.listAdd(m.queue[a], x)
				}
			}
		}
	}
}

// runReorg is one run of the pool's reorg loop: with a new head (reset) or for the dirty accounts only.
func (m *model) runReorg(newHead *blockRec, baseFee *big.Int) {
	var accts []int
	if newHead != nil {
		m.reset(newHead, baseFee)
		for a := 0; a < nAcc; a++ {
			if len(m.queue[a]) > 0 {
				accts = append(accts, a)
			}
		}
	} else {
		for a := range m.dirty {
			accts = append(accts, a)
		}
		sort.Ints(accts)
	}
	m.dirty = map[int]bool{}
	m.promote(accts)
	if newHead != nil {
		m.demote()
	}
	for a := 0; a < nAcc; a++ {
		if ns := sortedNonces(m.pending[a]); len(ns) > 0 {
			m.noncer[a] = ns[len(ns)-1] + 1
		}
	}
}

func (m *model) reset(newHead *blockRec, baseFee *big.Int) {
	old := m.head
	var reinject []*types.Transaction
	if old.wo.Hash() != newHead.wo.ParentHash(common.ZONE_CTX) {
		var discarded, included []*types.Transaction
		rem, add := old, newHead
		for rem.num > add.num {
			discarded = append(discarded, rem.wo.Transactions()...)
			rem = rem.parent
		}
		for add.num > rem.num {
			included = append(included, add.wo.Transactions()...)
			add = add.parent
		}
		for rem != add {
			discarded = append(discarded, rem.wo.Transactions()...)
			rem = rem.parent
			included = append(included, add.wo.Transactions()...)
			add = add.parent
		}
		inc := map[common.Hash]bool{}
		for _, tx := range included {
			inc[tx.Hash()] = true
		}
		for _, tx := range discarded {
			if !inc[tx.Hash()] {
				reinject = append(reinject, tx)
			}
		}
	}
	m.setState(newHead)
	for _, tx := range reinject {
		m.add(mtxOf(tx), false, baseFee)
	}
}

// compare returns a description of the first difference between the model and the pool's content.
func (m *model) compare(v *core.VerifView) string {
	for a := 0; a < nAcc; a++ {
		for li, pair := range [2]struct {
			mod  map[uint64]*mtx
			pool []core.VerifTx
			name string
		}{{m.pending[a], v.Pending[accounts[a].in], "pending"}, {m.queue[a], v.Queue[accounts[a].in], "queue"}} {
			_ = li
			got := map[uint64]common.Hash{}
			for _, t := range pair.pool {
				got[t.Nonce] = t.Hash
			}
			for n, x := range pair.mod {
				h, ok := got[n]
				if !ok {
					return fmt.Sprintf("%s of a%d: model holds nonce %d @%v, the pool does not", pair.name, a, n, x.price)
				}
				if h != x.hash {
					return fmt.Sprintf("%s of a%d nonce %d: model holds @%v, the pool another transaction", pair.name, a, n, x.price)
				}
			}
			for _, t := range pair.pool {
				if _, ok := pair.mod[t.Nonce]; !ok {
					return fmt.Sprintf("%s of a%d: the pool holds nonce %d @%v, the model does not", pair.name, a, t.Nonce, t.Price)
				}
			}
		}
	}
	for h, x := range m.all {
		_, l := v.Locals[h]
		_, r := v.Remotes[h]
		if x.isLocal && !l || !x.isLocal && !r {
			return fmt.Sprintf("a%d nonce %d: model indexes it as local=%v, the pool as local=%v remote=%v", x.acct, x.nonce, x.isLocal, l, r)
		}
	}
	if v.GasPrice.Cmp(m.gasPrice) != 0 {
		return fmt.Sprintf("gas price: model %v pool %v", m.gasPrice, v.GasPrice)
	}
	return ""
}
