// S2 triesim — seeded simulation of the Merkle Patricia trie stack (trie.Trie,
// trie.SecureTrie, state.Database.OpenTrie, trie.Database, StackTrie, proofs)
// against a map reference model.  Property C18.
//
// One rapid tape = one history of trie operations.  The model is the current
// contents (map) plus a snapshot of the contents for every root ever committed.
// Faults: restart (fresh trie.Database over the same disk: only what a completed
// Database.Commit wrote is guaranteed), crash inside Database.Commit (the disk
// image after a drawn prefix of the ordered write log), Cap flushes, Dereference
// garbage collection, corrupted / truncated / foreign Merkle proofs.
package triesim

import (
	"bytes"
	"fmt"
	"os"
	"sort"
	"testing"

	"github.com/dominant-strategies/go-quai/common"
	"github.com/dominant-strategies/go-quai/core/rawdb"
	"github.com/dominant-strategies/go-quai/core/state"
	"github.com/dominant-strategies/go-quai/core/types"
	"github.com/dominant-strategies/go-quai/crypto"
	"github.com/dominant-strategies/go-quai/ethdb"
	"github.com/dominant-strategies/go-quai/ethdb/memorydb"
	"github.com/dominant-strategies/go-quai/log"
	"github.com/dominant-strategies/go-quai/rlp"
	"github.com/dominant-strategies/go-quai/trie"
	"pgregory.net/rapid"

	"verif/sim/simkit"
)

var logger = log.NewLogger("", "error", 0)

func TestMain(m *testing.M) {
	code := m.Run()
	simkit.Global.Flush()
	os.Exit(code)
}

// ---- alphabets (fixed; indices come from the tape)

func k32(fill byte, tail ...byte) []byte {
	b := bytes.Repeat([]byte{fill}, 32)
	copy(b[32-len(tail):], tail)
	return b
}

// short keys colliding on nibbles, keys that are prefixes of each other, the empty key, 32-byte keys sharing 31/30/0 bytes
var keyAlphabet = [][]byte{
	{0x12}, {0x12, 0x34}, {0x12, 0x35}, {0x12, 0x34, 0x56}, {0x12, 0x34, 0x57}, {0x12, 0x34, 0x56, 0x78}, {0x13}, {0x1f, 0xff}, {0x20}, {0x21},
	{}, {0x00}, {0x00, 0x00}, {0xff}, {0xff, 0xff},
	k32(0xaa), k32(0xaa, 0xab), k32(0xaa, 0xa0), k32(0xaa, 0xbb, 0xaa), k32(0xab), k32(0x0a), k32(0x00), k32(0x00, 0x01),
	[]byte("acct-1"), []byte("acct-2"),
}

// empty = delete; < 32 bytes embeds the leaf in its parent; 40 kB values make a Database.Commit span several batches
var valAlphabet = [][]byte{
	{}, {0x01}, []byte("v2"), bytes.Repeat([]byte{0xb1}, 31), bytes.Repeat([]byte{0xb2}, 32), bytes.Repeat([]byte{0xb3}, 33),
	bytes.Repeat([]byte{0xd5}, 40000), bytes.Repeat([]byte{0xd6}, 41000),
	{0x00}, {0x80}, bytes.Repeat([]byte{0xc4}, 300), []byte("v2b"), bytes.Repeat([]byte{0xd7}, 42000),
	// values that make a branch of inline leaves come out at 31 / 32 / 33 bytes
	[]byte("four"), []byte("five5"), []byte("sixsix"), []byte("five6"),
}

var emptyRoot = common.HexToHash("56e81f171bcc55a6ff8345e692c0f86e5b48e01b996cadc001622fb5e363b421")

// ---- independent reference: the Merkle-Patricia root of a set of pairs, written from the specification (hex-prefix
// encoding, RLP, keccak; a node shorter than 32 bytes is embedded in its parent, the root is always hashed). Shares no
// code with package trie.

type refItem struct {
	nib []byte // key as nibbles
	val []byte
}

func refRoot(pairs map[string][]byte) common.Hash {
	if len(pairs) == 0 {
		return emptyRoot
	}
	keys := make([]string, 0, len(pairs))
	for k := range pairs {
		keys = append(keys, k)
	}
	sort.Strings(keys)
	items := make([]refItem, 0, len(keys))
	for _, k := range keys {
		nib := make([]byte, 0, 2*len(k))
		for _, b := range []byte(k) {
			nib = append(nib, b>>4, b&0x0f)
		}
		items = append(items, refItem{nib, pairs[k]})
	}
	return common.BytesToHash(crypto.Keccak256(refNode(items, 0)))
}

func refCompact(nib []byte, leaf bool) []byte {
	flag := byte(0)
	if leaf {
		flag = 2
	}
	var out []byte
	if len(nib)%2 == 1 {
		out = append(out, (flag+1)<<4|nib[0])
		nib = nib[1:]
	} else {
		out = append(out, flag<<4)
	}
	for i := 0; i < len(nib); i += 2 {
		out = append(out, nib[i]<<4|nib[i+1])
	}
	return out
}

func refRLPString(b []byte) []byte {
	if len(b) == 1 && b[0] < 0x80 {
		return []byte{b[0]}
	}
	return append(refRLPLen(len(b), 0x80), b...)
}

func refRLPLen(n int, base byte) []byte {
	if n < 56 {
		return []byte{base + byte(n)}
	}
	var be []byte
	for x := n; x > 0; x >>= 8 {
		be = append([]byte{byte(x)}, be...)
	}
	return append([]byte{base + 55 + byte(len(be))}, be...)
}

func refRLPList(items ...[]byte) []byte {
	var body []byte
	for _, it := range items {
		body = append(body, it...)
	}
	return append(refRLPLen(len(body), 0xc0), body...)
}

// refChild is how a parent refers to an encoded child: embedded when shorter than 32 bytes, by hash otherwise.
func refChild(enc []byte) []byte {
	if len(enc) < 32 {
		return enc
	}
	return refRLPString(crypto.Keccak256(enc))
}

// refNode encodes the node that holds items (sorted, all sharing their first depth nibbles).
func refNode(items []refItem, depth int) []byte {
	if len(items) == 1 {
		return refRLPList(refRLPString(refCompact(items[0].nib[depth:], true)), refRLPString(items[0].val))
	}
	// common prefix below depth
	first, last := items[0].nib, items[len(items)-1].nib
	cp := 0
	for depth+cp < len(first) && depth+cp < len(last) && first[depth+cp] == last[depth+cp] {
		cp++
	}
	if cp > 0 {
		return refRLPList(refRLPString(refCompact(first[depth:depth+cp], false)), refChild(refNode(items, depth+cp)))
	}
	slots := make([][]byte, 17)
	for i := range slots {
		slots[i] = []byte{0x80}
	}
	rest := items
	if len(rest[0].nib) == depth { // a key that ends here: the branch's own value
		slots[16] = refRLPString(rest[0].val)
		rest = rest[1:]
	}
	for i := 0; i < len(rest); {
		j := i
		for j < len(rest) && rest[j].nib[depth] == rest[i].nib[depth] {
			j++
		}
		slots[rest[i].nib[depth]] = refChild(refNode(rest[i:j], depth+1))
		i = j
	}
	return refRLPList(slots...)
}

var modeNames = []string{"trie", "secure", "statedb"}
var deriveLens = []int{0, 1, 2, 127, 128, 129}
var capLimits = []common.StorageSize{0, 512, 4096, 64 * 1024}

// tri is the common surface of *trie.Trie, *trie.SecureTrie and state.Trie.
type tri interface {
	TryGet(key []byte) ([]byte, error)
	TryUpdate(key, value []byte) error
	TryDelete(key []byte) error
	Hash() common.Hash
	Commit(onleaf trie.LeafCallback) (common.Hash, error)
	NodeIterator(start []byte) trie.NodeIterator
	Prove(key []byte, fromLevel uint, proofDb ethdb.KeyValueWriter) error
}

// ---- disk wrapper: ordered log of write groups (single Put/Delete, or the ops of one batch.Write)

type wop struct {
	del  bool
	k, v []byte
}
type logDisk struct {
	*memorydb.Database
	rec *[][]wop // non-nil while recording
}

func (d *logDisk) Put(k, v []byte) error {
	if d.rec != nil {
		*d.rec = append(*d.rec, []wop{{false, common.CopyBytes(k), common.CopyBytes(v)}})
	}
	return d.Database.Put(k, v)
}
func (d *logDisk) Delete(k []byte) error {
	if d.rec != nil {
		*d.rec = append(*d.rec, []wop{{true, common.CopyBytes(k), nil}})
	}
	return d.Database.Delete(k)
}
func (d *logDisk) NewBatch() ethdb.Batch { return &logBatch{Batch: d.Database.NewBatch(), d: d} }

type logBatch struct {
	ethdb.Batch
	d   *logDisk
	ops []wop
}

func (b *logBatch) Put(k, v []byte) error {
	b.ops = append(b.ops, wop{false, common.CopyBytes(k), common.CopyBytes(v)})
	return b.Batch.Put(k, v)
}
func (b *logBatch) Delete(k []byte) error {
	b.ops = append(b.ops, wop{true, common.CopyBytes(k), nil})
	return b.Batch.Delete(k)
}
func (b *logBatch) Write() error {
	if b.d.rec != nil && len(b.ops) > 0 {
		*b.d.rec = append(*b.d.rec, append([]wop(nil), b.ops...))
	}
	return b.Batch.Write()
}
func (b *logBatch) Reset() { b.ops = nil; b.Batch.Reset() }

// image returns a fresh disk holding d's contents plus the given write groups.
func (d *logDisk) image(groups [][]wop) *logDisk {
	n := &logDisk{Database: memorydb.New(logger)}
	it := d.Database.NewIterator(nil, nil)
	for it.Next() {
		n.Database.Put(common.CopyBytes(it.Key()), common.CopyBytes(it.Value()))
	}
	it.Release()
	for _, g := range groups {
		for _, o := range g {
			if o.del {
				n.Database.Delete(o.k)
			} else {
				n.Database.Put(o.k, o.v)
			}
		}
	}
	return n
}

// ---- proof recorder (ordered) and verification with panic capture

type proofList struct{ keys, vals [][]byte }

func (p *proofList) Put(k, v []byte) error {
	p.keys, p.vals = append(p.keys, common.CopyBytes(k)), append(p.vals, common.CopyBytes(v))
	return nil
}
func (p *proofList) Delete([]byte) error { panic("proof writer: delete") }
func (p *proofList) Logger() *log.Logger { return logger }
func (p *proofList) db() *memorydb.Database {
	db := memorydb.New(logger)
	for i := range p.keys {
		db.Put(p.keys[i], p.vals[i])
	}
	return db
}

func verify(root common.Hash, key []byte, db ethdb.KeyValueReader) (val []byte, panicked any, err error) {
	defer func() {
		if r := recover(); r != nil {
			panicked = r
		}
	}()
	val, err = trie.VerifyProof(root, key, db)
	return
}

type blobList [][]byte

func (l blobList) Len() int                           { return len(l) }
func (l blobList) EncodeIndex(i int, w *bytes.Buffer) { w.Write(l[i]) }

// ---- model

type rootRec struct {
	hash    common.Hash
	snap    map[string][]byte
	pinned  bool // committed into the current trie.Database and not dereferenced since: must reopen through it
	refs    int  // references taken on the root from outside (Reference(root, {})) and not yet given back
	durable bool // written by a completed Database.Commit: must reopen after every restart and crash
}

func sortedKeys(m map[string][]byte) []string {
	out := make([]string, 0, len(m))
	for k := range m {
		out = append(out, k)
	}
	sort.Strings(out)
	return out
}
func copyMap(m map[string][]byte) map[string][]byte {
	out := make(map[string][]byte, len(m))
	for k, v := range m {
		out[k] = v
	}
	return out
}

// tapeOp is one entry of the decision tape; every field is a small index.
type tapeOp struct{ Op, K, V, R, X, Y int }

var opNames = []string{"update", "update", "update", "update", "update", "update", "delete", "delete", "get", "get", "hash", "commit", "commit", "diskcommit", "cap", "ref", "deref", "reopen", "restart", "crash", "prove", "prove", "corrupt", "corrupt", "derive", "copymutate", "copymutate"}

var opGen = rapid.Custom(func(t *rapid.T) tapeOp {
	return tapeOp{
		Op: rapid.IntRange(0, len(opNames)-1).Draw(t, "op"),
		K:  rapid.OneOf(rapid.IntRange(0, 5), rapid.IntRange(0, len(keyAlphabet)-1)).Draw(t, "k"),
		V:  rapid.OneOf(rapid.IntRange(0, 7), rapid.IntRange(0, len(valAlphabet)-1), rapid.IntRange(len(valAlphabet)-4, len(valAlphabet)-1)).Draw(t, "v"),
		R:  rapid.IntRange(0, 7).Draw(t, "r"),
		X:  rapid.IntRange(0, 255).Draw(t, "x"),
		Y:  rapid.IntRange(0, 4095).Draw(t, "y"),
	}
})

type opRec struct {
	Op  string `json:"op"`
	Arg string `json:"arg,omitempty"`
}

// runHistory executes one tape.  tamper additionally lets the corrupt op flip a bit of a proof node
// while leaving it stored under its original hash (a proof store that is not content addressed).
func runHistory(t *rapid.T, tamper bool) {
	const P = "C18"
	defer simkit.EndOnKnown()
	tr := simkit.NewTrace()

	mode := rapid.IntRange(0, 2).Draw(t, "mode")
	var tape []tapeOp
	for _, seg := range rapid.SliceOfN(rapid.SliceOfN(opGen, 1, 20), 1, 10).Draw(t, "tape") {
		tape = append(tape, seg...)
	}
	tr.Event("mode=%s", modeNames[mode])

	var hist []opRec
	fail := func(class, witness, detail string) {
		w := fmt.Sprintf("mode=%s %s", modeNames[mode], witness)
		if simkit.Violation(t, tr, P, class, w, fmt.Sprintf("%s\nhistory: %+v", detail, hist)) {
			panic(simkit.KnownReached{}) // ends this run only
		}
	}
	rec := func(op, format string, args ...any) {
		hist = append(hist, opRec{op, fmt.Sprintf(format, args...)})
		tr.Event("%s %s", op, hist[len(hist)-1].Arg)
	}
	tkey := func(k []byte) []byte { // the key as stored in the trie
		if mode == 0 {
			return k
		}
		return crypto.Keccak256(k)
	}

	// ---- system under test
	disk := &logDisk{Database: memorydb.New(logger)}
	var tdb *trie.Database
	var sdb state.Database
	fresh := func() {
		if mode == 2 {
			sdb = state.NewDatabase(rawdb.NewDatabase(disk))
			tdb = sdb.TrieDB()
		} else {
			tdb = trie.NewDatabase(disk)
		}
	}
	openOn := func(root common.Hash, db *trie.Database) (tri, error) {
		switch {
		case mode == 0:
			x, err := trie.New(root, db)
			if err != nil {
				return nil, err
			}
			return x, nil
		case mode == 2 && db == tdb:
			return sdb.OpenTrie(root)
		}
		x, err := trie.NewSecure(root, db)
		if err != nil {
			return nil, err
		}
		return x, nil
	}
	fresh()
	scratch := trie.NewDatabase(memorydb.New(logger)) // backs the never-committed reference tries
	live, err := openOn(emptyRoot, tdb)
	if err != nil {
		panic(err)
	}
	base := emptyRoot // root the live trie was opened at / last committed to

	// ---- model
	m := map[string][]byte{}
	roots := []*rootRec{{hash: emptyRoot, snap: map[string][]byte{}, pinned: true, durable: true}}
	byHash := map[common.Hash]*rootRec{emptyRoot: roots[0]}
	maxKeys := 0

	// canon builds a brand-new trie from contents: order 0 sorted, 1 reverse, 2 every alphabet key first
	// filled with a dummy and then overwritten / deleted (a history full of updates and deletes).
	canon := func(contents map[string][]byte, order int) common.Hash {
		x, err := openOn(emptyRoot, scratch)
		if err != nil {
			panic(err)
		}
		keys := sortedKeys(contents)
		put := func(k, v []byte) {
			if err := x.TryUpdate(k, v); err != nil {
				panic(fmt.Sprintf("reference trie update: %v", err))
			}
		}
		switch order {
		case 0:
			for _, k := range keys {
				put([]byte(k), contents[k])
			}
		case 1:
			for i := len(keys) - 1; i >= 0; i-- {
				put([]byte(keys[i]), contents[keys[i]])
			}
		default:
			for _, k := range keyAlphabet {
				put(k, []byte("dummy-dummy-dummy-dummy-dummy-dummy"))
			}
			x.Hash()
			for i := len(keyAlphabet) - 1; i >= 0; i-- {
				put(keyAlphabet[i], contents[string(keyAlphabet[i])]) // nil value deletes
			}
		}
		return x.Hash()
	}
	checkCanon := func(got common.Hash, what string) {
		for order := 0; order < 3; order++ {
			if want := canon(m, order); got != want {
				fail("root-canonical", fmt.Sprintf("op=%s order=%d", what, order), fmt.Sprintf("%s root %x, fresh trie (order %d) over the same %d pairs has %x", what, got, order, len(m), want))
			}
		}
		// the independent reference (written from the specification, no code shared with package trie)
		hashed := map[string][]byte{}
		for k, v := range m {
			hashed[string(tkey([]byte(k)))] = v
		}
		if want := refRoot(hashed); got != want {
			fail("root-canonical", "op="+what+" reference-implementation", fmt.Sprintf("%s root %x, the Merkle-Patricia root of the same %d pairs computed from the specification is %x", what, got, len(m), want))
		}
		simkit.Global.Inc("reference_roots_compared")
		// the streaming hasher needs fixed-length keys in increasing order
		keys, same := make([]string, 0, len(m)), true
		for _, k := range sortedKeys(m) {
			keys = append(keys, string(tkey([]byte(k))))
			same = same && len(keys[len(keys)-1]) == len(keys[0])
		}
		if same && len(keys) > 0 {
			sort.Strings(keys)
			st := trie.NewStackTrie(nil)
			inv := map[string]string{}
			for _, k := range sortedKeys(m) {
				inv[string(tkey([]byte(k)))] = k
			}
			for _, k := range keys {
				st.Update([]byte(k), m[inv[k]])
			}
			if sh := st.Hash(); sh != got {
				fail("stacktrie-eq", "op="+what+" stacktrie-vs-model", fmt.Sprintf("StackTrie over %d pairs %x, trie %x", len(keys), sh, got))
			}
			simkit.Global.Inc("probe.stacktrie_vs_live")
		}
		for i, a := range keys {
			for _, b := range keys[i+1:] {
				if len(a) != len(b) && (bytes.HasPrefix([]byte(a), []byte(b)) || bytes.HasPrefix([]byte(b), []byte(a))) {
					simkit.Global.Inc("probe.prefix_key_pair")
					return
				}
			}
		}
	}
	// serves checks trie x (opened at r) against r's snapshot.  strict: nothing may be missing.
	// lax: errors (missing nodes) are tolerated, wrong data is not.  Returns false if something was missing.
	serves := func(x tri, r *rootRec, strict bool, class, what string) bool {
		complete := true
		for _, k := range keyAlphabet {
			got, err := x.TryGet(k)
			if err != nil {
				complete = false
				if strict {
					fail(class, what+" what=get-error", fmt.Sprintf("root %x Get(%x): %v", r.hash, k, err))
				}
				continue
			}
			if want := r.snap[string(k)]; !bytes.Equal(got, want) {
				fail(class, what+" what=get-value", fmt.Sprintf("root %x Get(%x)=%x snapshot %x", r.hash, k, got, want))
			}
		}
		want := map[string][]byte{}
		for k, v := range r.snap {
			want[string(tkey([]byte(k)))] = v
		}
		seen := map[string]bool{}
		it := trie.NewIterator(x.NodeIterator(nil))
		for it.Next() {
			w, ok := want[string(it.Key)]
			if !ok || seen[string(it.Key)] || !bytes.Equal(w, it.Value) {
				fail(class, what+" what=iterate", fmt.Sprintf("root %x iterator yields (%x,%x) snapshot has (%x, present=%v, dup=%v)", r.hash, it.Key, it.Value, w, ok, seen[string(it.Key)]))
			}
			seen[string(it.Key)] = true
		}
		if it.Err != nil {
			complete = false
			if strict {
				fail(class, what+" what=iterate-error", fmt.Sprintf("root %x iterator: %v", r.hash, it.Err))
			}
		} else if len(seen) != len(want) {
			fail(class, what+" what=iterate-missing", fmt.Sprintf("root %x iterator yields %d leaves, snapshot has %d", r.hash, len(seen), len(want)))
		}
		if h := x.Hash(); h != r.hash {
			fail(class, what+" what=hash", fmt.Sprintf("trie opened at %x hashes to %x", r.hash, h))
		}
		return complete
	}
	checkRoot := func(r *rootRec, db *trie.Database, strict bool, class, what string) bool {
		x, err := openOn(r.hash, db)
		if err != nil {
			if strict {
				fail(class, what+" what=open-error", fmt.Sprintf("root %x: %v", r.hash, err))
			}
			return false
		}
		return serves(x, r, strict, class, what)
	}
	commitLive := func(what string) *rootRec {
		root, err := live.Commit(nil)
		if err != nil {
			fail("reopen", "op="+what+" what=commit-error", err.Error())
		}
		checkCanon(root, what)
		r := byHash[root]
		if r == nil {
			r = &rootRec{hash: root, snap: copyMap(m)}
			roots, byHash[root] = append(roots, r), r
		} else {
			simkit.Global.Inc("probe.recommit_same_root")
		}
		r.pinned, base = true, root
		return r
	}
	// restartAt: everything only held by the old trie.Database is gone; continue from a durable root
	restartAt := func(ri int, class, what string, interrupted *rootRec) {
		fresh()
		var durables []*rootRec
		for _, r := range roots {
			r.pinned = r.durable
			r.refs = 0
			kind := "volatile"
			if r == interrupted {
				kind = "interrupted"
			}
			if r.durable {
				durables = append(durables, r)
				checkRoot(r, tdb, true, class, what+" root=durable")
			} else if !checkRoot(r, tdb, false, class, what+" root="+kind) {
				simkit.Global.Inc("probe." + kind + "_root_lost")
			} else {
				simkit.Global.Inc("probe." + kind + "_root_survived")
			}
		}
		r := durables[ri%len(durables)]
		live, err = openOn(r.hash, tdb)
		if err != nil {
			fail(class, what+" what=open-error", fmt.Sprintf("root %x: %v", r.hash, err))
		}
		m, base = copyMap(r.snap), r.hash
	}
	prove := func(key []byte) (common.Hash, *proofList) {
		root := live.Hash()
		pl := &proofList{}
		if err := live.Prove(tkey(key), 0, pl); err != nil {
			fail("proof-sound", "op=prove what=prove-error", fmt.Sprintf("Prove(%x): %v", key, err))
		}
		return root, pl
	}

	kinds := map[string]bool{}
	for _, o := range tape {
		op := opNames[o.Op]
		kinds[op] = true
		key, val := keyAlphabet[o.K], valAlphabet[o.V]
		r := roots[o.R%len(roots)]
		switch op {
		case "update":
			rec(op, "k=%x v=#%d(len %d)", key, o.V, len(val))
			if err := live.TryUpdate(key, val); err != nil {
				fail("get-model", "op=update what=error", fmt.Sprintf("Update(%x): %v", key, err))
			}
			if len(val) == 0 {
				delete(m, string(key))
			} else {
				m[string(key)] = val
			}
			if len(val) >= 40000 {
				simkit.Global.Inc("probe.big_value")
			}
		case "delete":
			rec(op, "k=%x", key)
			if _, ok := m[string(key)]; ok && len(m) > 1 {
				simkit.Global.Inc("probe.delete_present_key")
			}
			if err := live.TryDelete(key); err != nil {
				fail("get-model", "op=delete what=error", fmt.Sprintf("Delete(%x): %v", key, err))
			}
			delete(m, string(key))
		case "copymutate":
			// a copy of the trie (as StateDB.Copy / SecureTrie.Copy make them) is mutated; the original must not notice
			var cp tri
			switch t := live.(type) {
			case *trie.SecureTrie:
				cp = t.Copy()
			case *trie.Trie:
				c := *t
				cp = &c
			default:
				if sdb != nil {
					if c, ok := sdb.CopyTrie(live.(state.Trie)).(tri); ok {
						cp = c
					}
				}
			}
			if cp == nil {
				break
			}
			rec(op, "k=%x v=#%d", key, o.V)
			other := keyAlphabet[(o.K+1+o.X)%len(keyAlphabet)]
			_ = cp.TryDelete(key)
			if len(val) > 0 {
				_ = cp.TryUpdate(other, val)
			}
			_ = cp.TryDelete(keyAlphabet[(o.K+2+o.Y)%len(keyAlphabet)])
			cp.Hash()
			simkit.Global.Inc("fault.copy_mutated")
			serves(live, &rootRec{hash: canon(m, 0), snap: m}, true, "copy-isolation", "op=copymutate")
			if got, want := live.Hash(), canon(m, 0); got != want {
				fail("copy-isolation", "op=copymutate what=root", fmt.Sprintf("after mutating a copy the original's root is %x, a fresh trie over the same %d pairs has %x", got, len(m), want))
			}
		case "get":
			rec(op, "k=%x", key)
			got, err := live.TryGet(key)
			if err != nil || !bytes.Equal(got, m[string(key)]) {
				fail("get-model", "op=get", fmt.Sprintf("Get(%x)=%x,%v model %x", key, got, err, m[string(key)]))
			}
		case "hash":
			rec(op, "")
			checkCanon(live.Hash(), "hash")
		case "commit":
			rec(op, "")
			commitLive("commit")
		case "diskcommit":
			rec(op, "root#%d", o.R%len(roots))
			if err := tdb.Commit(r.hash, false, nil); err != nil {
				fail("reopen", "op=diskcommit what=error", err.Error())
			}
			if r.pinned {
				r.durable = true
			}
		case "cap":
			rec(op, "limit=%v", capLimits[o.X%len(capLimits)])
			if err := tdb.Cap(capLimits[o.X%len(capLimits)]); err != nil {
				fail("reopen", "op=cap what=error", err.Error())
			}
			simkit.Global.Inc("fault.cap_flush")
		case "ref":
			rec(op, "root#%d", o.R%len(roots))
			times := 1
			if o.X%3 == 0 {
				times = 2 // two retained blocks with the same state root
			}
			for i := 0; i < times; i++ {
				tdb.Reference(r.hash, common.Hash{})
				if r.pinned && !r.durable && r.hash != emptyRoot {
					r.refs++ // (a reference on a root that is not in the dirty cache is not recorded by the database)
				}
			}
		case "deref":
			// the trie in use keeps unresolved references into its base root: the node never collects that one
			if r.hash == base || r.hash == emptyRoot {
				break
			}
			rec(op, "root#%d", o.R%len(roots))
			tdb.Dereference(r.hash)
			// references on a root are counted: it is released when the last one is given back (or when none was taken)
			if r.refs > 0 {
				r.refs--
				simkit.Global.Inc("probe.dereference_of_multiply_referenced_root")
			}
			if r.refs == 0 {
				r.pinned = r.durable
			} else {
				// still referenced: it must still be served by the database
				checkRoot(r, tdb, true, "reopen", "op=deref-of-still-referenced-root")
			}
			simkit.Global.Inc("fault.dereference")
		case "reopen":
			rec(op, "root#%d pinned=%v", o.R%len(roots), r.pinned)
			x, err := openOn(r.hash, tdb)
			if err != nil {
				if r.pinned {
					fail("reopen", "op=reopen-same-db what=open-error", fmt.Sprintf("root %x: %v", r.hash, err))
				}
				break
			}
			if !serves(x, r, r.pinned, "reopen", "op=reopen-same-db") {
				break // a released root with holes: keep the current trie
			}
			live, m, base = x, copyMap(r.snap), r.hash
		case "restart":
			rec(op, "continue-at-durable#%d", o.R)
			simkit.Global.Inc("fault.restart")
			restartAt(o.R, "reopen", "op=restart", nil)
		case "crash":
			cr := commitLive("crash")
			var wlog [][]wop
			pre := disk.image(nil)
			disk.rec = &wlog
			err := tdb.Commit(cr.hash, false, nil)
			disk.rec = nil
			if err != nil {
				fail("commit-crash", "op=crash what=commit-error", err.Error())
			}
			cut := o.X % (len(wlog) + 1)
			rec(op, "writes=%d cut=%d continue-at-durable#%d", len(wlog), cut, o.R)
			if len(wlog) > 2 {
				simkit.Global.Inc("probe.commit_multi_batch")
			}
			if cut == len(wlog) {
				cr.durable = true
				simkit.Global.Inc("probe.crash_after_last_write")
			} else {
				simkit.Global.Inc("fault.commit_crash")
			}
			disk = pre.image(wlog[:cut])
			restartAt(o.R, "commit-crash", "op=crash", cr)
		case "prove":
			rec(op, "k=%x", key)
			root, pl := prove(key)
			got, pan, err := verify(root, tkey(key), pl.db())
			want, present := m[string(key)]
			switch {
			case pan != nil:
				fail("proof-panic", "op=prove", fmt.Sprintf("VerifyProof(%x) panicked: %v", key, pan))
			case len(m) == 0: // an empty trie has no node to put in a proof: an error is the only possible non-answer
				simkit.Global.Inc("probe.prove_on_empty_trie")
				if got != nil {
					fail("proof-sound", "op=prove what=empty-trie", fmt.Sprintf("empty trie proves %x=%x", key, got))
				}
			case err != nil || !bytes.Equal(got, want):
				fail("proof-sound", fmt.Sprintf("op=prove present=%v", present), fmt.Sprintf("VerifyProof(%x)=%x,%v model %x (proof nodes %d)", key, got, err, want, len(pl.keys)))
			}
			if !present && len(m) > 0 {
				simkit.Global.Inc("probe.absence_proof")
			}
		case "corrupt":
			if len(m) == 0 {
				break
			}
			root, pl := prove(key)
			n := len(pl.keys)
			if n == 0 {
				fail("proof-sound", "op=corrupt what=empty-proof", fmt.Sprintf("Prove(%x) on a trie with %d keys wrote no node", key, len(m)))
			}
			variant := []string{"bitflip-rekeyed", "foreign-key", "drop-node", "bitflip-inplace"}[o.Y%4]
			if variant == "bitflip-inplace" && !tamper {
				variant = "bitflip-rekeyed"
			}
			vkey := key
			db := memorydb.New(logger)
			switch variant {
			case "foreign-key": // a genuine proof, presented for another key
				vkey = keyAlphabet[(o.K+1+o.X)%len(keyAlphabet)]
				rec(op, "%s proof-of=%x verify=%x", variant, key, vkey)
				db = pl.db()
			case "drop-node":
				rec(op, "%s k=%x node=%d/%d", variant, key, o.X%n, n)
				for i := range pl.keys {
					if i != o.X%n {
						db.Put(pl.keys[i], pl.vals[i])
					}
				}
			default:
				ni := o.X % n
				bit := o.Y / 4 * 131 % (len(pl.vals[ni]) * 8)
				rec(op, "%s k=%x node=%d/%d bit=%d", variant, key, ni, n, bit)
				for i := range pl.keys {
					k, v := pl.keys[i], common.CopyBytes(pl.vals[i])
					if i == ni {
						v[bit/8] ^= 1 << (bit % 8)
						if variant == "bitflip-rekeyed" {
							k = crypto.Keccak256(v)
						}
					}
					db.Put(k, v)
				}
			}
			simkit.Global.Inc("fault.proof_" + variant)
			got, pan, err := verify(root, tkey(vkey), db)
			if pan != nil {
				fail("proof-panic", "op=corrupt variant="+variant, fmt.Sprintf("VerifyProof(%x) panicked: %v", vkey, pan))
			}
			if err == nil && !bytes.Equal(got, m[string(vkey)]) {
				fail("proof-corrupt", "op=corrupt variant="+variant, fmt.Sprintf("VerifyProof(%x)=%x without error, model %x", vkey, got, m[string(vkey)]))
			}
			if err == nil {
				simkit.Global.Inc("probe.corrupt_proof_still_verifies")
			}
		case "derive":
			n := o.Y % 40
			if o.X%4 == 0 {
				n = deriveLens[o.X/4%len(deriveLens)]
			} else if o.X%16 == 1 {
				n = o.Y % 300
			}
			rec(op, "n=%d y=%d", n, o.Y)
			list := make(blobList, n)
			for i := range list {
				list[i] = bytes.Repeat([]byte{byte(i ^ o.Y)}, 1+(i*o.Y+i+o.Y)%45)
			}
			got := types.DeriveSha(list, trie.NewStackTrie(nil))
			full, _ := trie.New(common.Hash{}, scratch)
			for i := range list {
				full.Update(rlp.AppendUint64(nil, uint64(i)), list[i])
			}
			full2, _ := trie.New(common.Hash{}, scratch)
			if want, want2 := full.Hash(), types.DeriveSha(list, full2); got != want || got != want2 {
				fail("stacktrie-eq", fmt.Sprintf("op=derive n=%d", n), fmt.Sprintf("DeriveSha(StackTrie)=%x full trie=%x DeriveSha(Trie)=%x n=%d y=%d", got, want, want2, n, o.Y))
			}
			if n >= 128 {
				simkit.Global.Inc("probe.derive_ge128")
			}
		}
		if len(m) > maxKeys {
			maxKeys = len(m)
		}
	}
	// final: the live trie equals the model, key by key and by root
	rec("final", "keys=%d", len(m))
	checkCanon(live.Hash(), "final")
	serves(live, &rootRec{hash: canon(m, 0), snap: m}, true, "get-model", "op=final")

	simkit.Global.Inc("runs")
	simkit.Global.Add("ops", int64(len(hist)))
	simkit.Global.Seen("trace", tr.Digest())
	// non-trivial: at least 8 executed ops of at least 4 kinds, and the trie held 3+ keys at once (so it branched)
	if len(hist) >= 8 && len(kinds) >= 4 && maxKeys >= 3 {
		simkit.Global.Seen("nontrivial", tr.Digest())
	}
	simkit.Global.Seen("mode", modeNames[mode])
	simkit.Global.Sample(map[string]any{"mode": modeNames[mode], "ops": hist})
}

func TestC18(t *testing.T) {
	rapid.Check(t, func(t *rapid.T) { runHistory(t, false) })
}
