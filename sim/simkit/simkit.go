// Package simkit holds what every harness shares: measured statistics written
// to VERIF_OUT, violation classes, the known-findings filter, the trace digest.
//
// Nothing in here draws random numbers or reads a clock for decisions: every
// choice of a run comes from the rapid tape of the calling test.
package simkit

import (
	"crypto/sha256"
	"encoding/hex"
	"encoding/json"
	"fmt"
	"os"
	"sort"
	"strings"
	"sync"
)

// TB is the part of *rapid.T / *testing.T the kit needs.
type TB interface {
	Fatalf(format string, args ...any)
	Logf(format string, args ...any)
}

// ---------------------------------------------------------------- statistics

type Stats struct {
	mu       sync.Mutex
	Counters map[string]int64
	distinct map[string]map[string]struct{}
	Samples  []any
	maxSamp  int
	Notes    map[string]string
}

var Global = NewStats()

func NewStats() *Stats {
	return &Stats{Counters: map[string]int64{}, distinct: map[string]map[string]struct{}{}, maxSamp: 4, Notes: map[string]string{}}
}

func (s *Stats) Inc(name string) { s.Add(name, 1) }
func (s *Stats) Add(name string, n int64) {
	s.mu.Lock()
	s.Counters[name] += n
	s.mu.Unlock()
}

// Seen records key in the distinct-set named measure.
func (s *Stats) Seen(measure, key string) {
	s.mu.Lock()
	m := s.distinct[measure]
	if m == nil {
		m = map[string]struct{}{}
		s.distinct[measure] = m
	}
	if len(m) < 2_000_000 {
		m[key] = struct{}{}
	}
	s.mu.Unlock()
}

func (s *Stats) Sample(v any) {
	s.mu.Lock()
	if len(s.Samples) < s.maxSamp {
		s.Samples = append(s.Samples, v)
	}
	s.mu.Unlock()
}

func (s *Stats) Note(k, v string) {
	s.mu.Lock()
	s.Notes[k] = v
	s.mu.Unlock()
}

type flushed struct {
	Counters map[string]int64    `json:"counters"`
	Distinct map[string][]string `json:"distinct"` // 8-byte hex digests of the distinct keys, so processes can be merged
	Samples  []any               `json:"samples"`
	Notes    map[string]string   `json:"notes"`
}

// Flush writes the statistics to the file named by VERIF_OUT (if set).
func (s *Stats) Flush() {
	path := os.Getenv("VERIF_OUT")
	if path == "" {
		return
	}
	s.mu.Lock()
	defer s.mu.Unlock()
	f := flushed{Counters: s.Counters, Distinct: map[string][]string{}, Samples: s.Samples, Notes: s.Notes}
	for m, set := range s.distinct {
		keys := make([]string, 0, len(set))
		for k := range set {
			h := sha256.Sum256([]byte(k))
			keys = append(keys, hex.EncodeToString(h[:8]))
		}
		sort.Strings(keys)
		f.Distinct[m] = keys
	}
	b, _ := json.Marshal(f)
	_ = os.WriteFile(path, b, 0o644)
}

// ---------------------------------------------------------------- trace

// Trace is the recorded event log of one run; its digest is the identity of
// the interleaving / history that was executed.
type Trace struct {
	h   [32]byte
	n   int
	Log []string // kept only when VERIF_TRACE=1 or for the failing run
	keep bool
}

func NewTrace() *Trace { return &Trace{keep: os.Getenv("VERIF_TRACE") != ""} }

func (t *Trace) Event(format string, args ...any) {
	line := fmt.Sprintf(format, args...)
	hh := sha256.New()
	hh.Write(t.h[:])
	hh.Write([]byte(line))
	copy(t.h[:], hh.Sum(nil))
	t.n++
	if t.keep || len(t.Log) < 400 {
		t.Log = append(t.Log, line)
	}
}
func (t *Trace) Digest() string { return hex.EncodeToString(t.h[:8]) }
func (t *Trace) Len() int       { return t.n }

// ---------------------------------------------------------------- violations

type knownFinding struct {
	Property string `json:"property"`
	ID       string `json:"id"`
	Class    string `json:"class"`   // exact oracle class
	Witness  string `json:"witness"` // every '&'-separated token must occur in the witness string
	What     string `json:"what"`
	Status   string `json:"status"` // "open" | "fixed"
}

var (
	knownOnce sync.Once
	knownList []knownFinding
)

func loadKnown() {
	path := os.Getenv("VERIF_KNOWN")
	if path == "" {
		return
	}
	b, err := os.ReadFile(path)
	if err != nil {
		return
	}
	var file struct {
		Findings []knownFinding `json:"findings"`
	}
	if json.Unmarshal(b, &file) == nil {
		for _, k := range file.Findings {
			if k.Status == "open" {
				knownList = append(knownList, k)
			}
		}
	}
}

// Known reports whether (class, witness) is a listed open finding; if so the
// hit is counted and the caller must stop checking this run's consequences of
// it (and only of it).
func Known(property, class, witness string) bool {
	knownOnce.Do(loadKnown)
	for _, k := range knownList {
		if k.Property != property || k.Class != class {
			continue
		}
		ok := true
		for _, tok := range strings.Split(k.Witness, "&") {
			tok = strings.TrimSpace(tok)
			if tok != "" && !strings.Contains(witness, tok) {
				ok = false
				break
			}
		}
		if ok {
			Global.Inc("known_finding:" + k.ID)
			return true
		}
	}
	return false
}

// Violation fails the run with a parseable class line unless the witness is a
// listed known finding, in which case it returns true (caller ends the run).
func Violation(t TB, tr *Trace, property, class, witness string, detail string) bool {
	if Known(property, class, witness) {
		return true
	}
	dig := ""
	if tr != nil {
		dig = tr.Digest()
		if os.Getenv("VERIF_TRACE") != "" {
			for i, l := range tr.Log {
				t.Logf("trace[%d] %s", i, l)
			}
		}
	}
	t.Fatalf("VCLASS property=%s class=%s digest=%s witness={%s}\n%s", property, class, dig, witness, detail)
	return false
}

// KnownReached is panicked by a harness when a listed known finding ends a run.
type KnownReached struct{}

// EndOnKnown is deferred by property functions: a run that reached a known
// finding ends there as a pass (the finding is counted), anything else unwinds.
func EndOnKnown() {
	if r := recover(); r != nil {
		if _, ok := r.(KnownReached); ok {
			Global.Inc("runs_ended_by_known_finding")
			return
		}
		panic(r)
	}
}
