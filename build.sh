#!/bin/sh
# setup_cmd: build the framework's tools and warm the Go build cache, offline.
cd "$(dirname "$0")" && exec ./vcheck build
