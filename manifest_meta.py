"""Human-written texts for MANIFEST.json."""
ENGINES = [
    {"name": "S3-evmsim", "path": "/verif/sim/evmsim", "serves_properties": ["C02", "C05", "C12", "C15", "C16"],
     "kind_free_text": "seeded EVM/state simulation through the real core.ApplyTransaction: grammar-built contract DAGs, every frame 'crashed' by gas cut at each recorded interpreter step / REVERT / INVALID, world digest vs deep-copy model; block batch on a drawn storage engine"},
    {"name": "S4-poolsim", "path": "/verif/sim/poolsim", "serves_properties": ["C19"],
     "kind_free_text": "controlled-scheduler simulation of the real TxPool: tx_pool.go is AST-rewritten at build time (tools/rewrite) so that every lock, channel op, select, go statement, ticker, clock read and pool-map range is a scheduler decision drawn from the tape; real goroutines, one runnable at a time, inside a synctest bubble; optional -race build"},
    {"name": "S5-chainsim", "path": "/verif/sim/chainsim", "serves_properties": ["C01", "C03", "C04", "C06", "C07", "C08", "C09", "C10", "C11", "C13", "C14", "C15", "C16", "C20"],
     "kind_free_text": "whole-node deterministic simulation: three real core.Core (prime/region/zone) in one synctest bubble; seeded scheduler owns mining, head selection (forks/reorgs), delivery, storage (SimDisk) and the worker refresh; rapid tape = replay"},
    {"name": "S2-triesim", "path": "/verif/sim/triesim", "serves_properties": ["C18"],
     "kind_free_text": "seeded trie histories with restart / crash-at-write-prefix / proof-corruption faults against a map model with per-root snapshots"},
    {"name": "S1-dbsim", "path": "/verif/sim/dbsim", "serves_properties": ["C17"],
     "kind_free_text": "seeded lock-step simulation of the three storage engines and the rawdb wrappers against a map+batch reference model, with reopen / held-iterator / cross-engine replay faults (rapid tape = replay file)"},
]
NOTES = ("Technique family: deterministic simulation with fault injection. One integer (VERIF_SEED) -> per-chunk rapid seeds -> every generated operation, fault and schedule choice. "
         "Violations are minimised by rapid's shrinker and stored under /verif/replays as <id>.json + <id>.fail (bit-exact tape). Exit 2 = infrastructure trouble, never a violation. "
         "Known findings: /verif/known_findings.json.")
NOT_APPLICABLE = {}
META = {
    "C17": {
        "engine": "S1-dbsim", "design_ref": "DESIGN.md section 4 C17, section 2.6",
        "technique": "deterministic simulation: seeded operation/fault histories in lock-step on all engines vs. reference model (rapid tape, shrinking, replay)",
        "text": ("Exploration: thousands (quick) to hundreds of thousands (thorough) of seeded histories of database operations, including close/reopen between any two operations, iterators held open across writes, "
                 "and batches replayed into another engine, are applied in lock-step to memorydb, leveldb, pebble and the rawdb table/nofreezedb wrappers and compared op-by-op with a map+ordered-batch model. "
                 "Sampling, not proof; right level because the property quantifies over all op histories and backends and the interesting failures (pending view, prefix upper bounds, snapshot iterators) need specific short sequences that a seeded search with shrinking finds and minimises."),
        "note": "Trusted: the reference model (60 lines), goleveldb/pebble themselves beyond what the histories exercise; power-loss durability is not part of this check (C11).",
    },
    "C18": {
        "engine": "S2-triesim", "design_ref": "DESIGN.md section 4 C18",
        "technique": "deterministic simulation: seeded trie operation histories with restart, crash-prefix and proof-corruption faults vs. reference model (rapid tape, shrinking, replay)",
        "text": ("Exploration: seeded histories of trie operations interleaved with commits, cache flushes, restarts over the same disk, crashes at every drawn prefix of a disk commit's write log, and corrupted proofs; "
                 "after every op the real trie is compared with a map model (canonical root by three construction orders, reads, reopened roots, proofs, StackTrie vs full trie). "
                 "Sampling with shrinking; the order/history independence and crash clauses need specific short histories, which is what a seeded search finds."),
        "note": "Trusted: the map model and snapshot bookkeeping; keccak/rlp. Secure-trie key collisions cannot be steered.",
    },
    "C06": {
        "engine": "S5-chainsim", "design_ref": "DESIGN.md section 4 C06, section 3",
        "technique": "deterministic whole-node simulation (seeded block/tx/reorg histories), invariant checked after every head change; second honest node over a simulated faulty network (reorder, duplicate, drop, partition, heal) that must re-execute A's canonical line to the same commitments",
        "text": ("Exploration: hundreds (quick) to tens of thousands (thorough) of seeded chain histories mixing Quai transfers, conversions, Qi spends, Qi/Quai coinbases and lockups, forks and reorgs are executed by the real node; "
                 "after every head change the UTXO root, set size and state roots in the header are recomputed from what is actually stored. Right level: the clause quantifies over histories and reorgs; failures need specific block contents."),
        "note": "Trusted: harness scan + multiset recomputation; goroutine interleavings inside Finalize are left to the Go runtime (not steered). Network half: the p2p stack is a stub, re-sending on heal stands in for the downloader.",
    },
    "C07": {
        "engine": "S5-chainsim", "design_ref": "DESIGN.md section 4 C07",
        "technique": "deterministic whole-node simulation: worker-built blocks from seeded mempools sealed and fed back to the same node",
        "text": ("Exploration of the liveness half (assembly == validation): every block the worker builds from seeded mempool contents (including adversarial Qi transactions the pool admitted) and inbound ETX queues must be accepted by the node's own validation and executed as head."),
        "note": "Both halves are checked: own blocks accepted (TestC07) and single-component rewrites of the honest candidate, re-sealed with real work, rejected without trace (TestC07Byz). Byzantine candidates are zone-order blocks.",
    },
    "C10": {
        "engine": "S5-chainsim", "design_ref": "DESIGN.md section 4 C10",
        "technique": "deterministic whole-node simulation with seeded forks/reorgs; refinement check against a fresh node fed only the winning branch; replica agreement with a second honest node that received all branches over a simulated faulty network (reorder, duplicate, drop, partition, heal)",
        "text": ("Exploration: seeded pairs/trees of branches with spends of pre-fork outputs, outputs created and spent on one branch, coinbase lockups and conversions; after head switches the full chain-state key space is compared with a second node that followed the winning branch directly."),
        "note": "Trusted: image extraction; reorg depth limited by tape length (<= ~10); trimming depths shrunk by the regime but rarely reached in quick runs.",
    },
    "C11": {
        "engine": "S5-chainsim", "design_ref": "DESIGN.md section 4 C11, section 2.6",
        "technique": "deterministic whole-node simulation with crash injection at prefixes of the recorded global write-op log, restart on the surviving image, recovery compared with the uncrashed run",
        "text": ("Fault enumeration within sampled histories: each history's global disk write log (all three chain databases, puts/deletes and atomic batch commits in order) is cut at drawn prefixes biased to the block-batch boundaries; the node is restarted on each image with real start-up code, "
                 "its head is checked against stored state and header commitments, the original chain is re-delivered and the recovered chain state must equal the uncrashed one."),
        "note": "Crash prefixes are sampled (1..5 per history), not all enumerated; torn batches and reordered writes are outside the engines' contract and not injected; memorydb-backed SimDisk stands in for leveldb/pebble (same write order).",
    },
    "C09": {
        "engine": "S5-chainsim", "design_ref": "DESIGN.md section 4 C09, section 2.7",
        "technique": "deterministic whole-node simulation with a byzantine block rewriter (one derived header field changed, re-sealed with real PoW) plus per-edge entropy/order invariants",
        "text": "Exploration: in seeded chain histories a simulated adversary with its own hash power presents blocks that deviate from the honest candidate in exactly one parent-derived header field; the node must refuse each; honest edges must show strictly increasing entropy and stable order.",
        "note": "Full byzantine blocks are zone-order candidates; for dominant-order blocks the number rule of each coincident context is decided through that chain's header verification on re-sealed copies. Share-difficulty fields and clock skew not exercised (stated in the evidence rule).",
    },
    "C08": {
        "engine": "S5-chainsim", "design_ref": "DESIGN.md section 4 C08, section 2.7",
        "technique": "deterministic whole-node simulation with a byzantine block rewriter (seal reused on changed content) plus independent PoW recomputation for every accepted block, workshare verdicts on copies re-sealed into bands around the share target, and a seal-coverage table over every header field in both layouts (finite tables on headers taken from the run)",
        "text": "Exploration of the blake3 clause: reused seals on changed content are refused; every accepted block's hash is recomputed by the harness and compared with the target of its declared difficulty; a share is graded valid exactly when its hash is at or below 2^256/difficulty*2^k (pre-fork rule); changing any single header field moves the seal hash.",
        "note": "AuxPoW / progpow / kawpow hashing and the post-fork share target (CalculateKawpowShareDiff) are not decided (engines not run, no independent statement of that target); said so in evidence assumptions.",
    },
    "C19": {
        "engine": "S4-poolsim", "design_ref": "DESIGN.md section 4 C19, section 2.4",
        "technique": "deterministic simulation with a seeded goroutine scheduler (yield points at every lock/channel/select/go/ticker of the rewritten pool), invariants at quiescence, sequential reference model, race-detector batches",
        "text": ("Exploration over schedules and histories: the real pool's goroutines are parked at every synchronisation point and released one at a time by the tape, so a run is an exact interleaving that replays; structural invariants are checked at every quiescent point, deadlock is a decided outcome, panics are caught, "
                 "and the thorough tier re-runs tapes under the race detector."),
        "note": "Schedules sampled, not enumerated. One open known finding (replacement through a full pool). Oracle readings chosen conservatively are listed in the evidence assumptions.",
    },
    "C04": {
        "engine": "S5-chainsim", "design_ref": "DESIGN.md section 4 C04",
        "technique": "deterministic whole-node simulation (zone, region and prime cores, forks and reorgs at every level); history check of emitted/delivered/executed ETXs against a FIFO queue model; byzantine pending-ETX batches pushed before the genuine one; the same history oracle on a second honest node fed over a faulty simulated network; FIFO model of the state's ETX queue across the growth of its index key",
        "text": "Exploration: seeded multi-level histories (several zone blocks between coincident blocks, forks and reorgs) with coinbase and conversion ETXs travelling zone -> prime -> zone; exactly-once, FIFO order, unaltered-in-transit and bounded-liveness are checked on the recorded history of the final canonical chain.",
        "note": "Single slice only: cross-zone routing and 'delivered to another zone' are not exercised (stated in evidence assumptions).",
    },
    "C16": {
        "engine": "S5-chainsim", "design_ref": "DESIGN.md section 4 C16",
        "technique": "deterministic whole-node simulation with scope invariants on account state and UTXO set after every head change and the validator's verdict on a Qi payment to a Quai-ledger payee; deterministic simulation of transaction execution (creations with salts ground for Qi addresses, transfers and self-destructs aimed out of scope, gas cuts) with creation-scope and state-scope oracles; a finite address-classification table over every construction path",
        "text": "Exploration of the state clauses: no out-of-zone or Qi-ledger account appears in zone state, every UTXO owner is an in-zone Qi address, in seeded histories with conversions, Qi coinbases and reorgs.",
        "note": "Constructor/decoder agreement is decided on a boundary table only (a pure-function claim over 2^160 addresses is outside this technique); the location-less decoders (UnmarshalJSON / UnmarshalText / DecodeRLP) classify against location 0-0: open known finding.",
    },
    "C01": {
        "engine": "S5-chainsim", "design_ref": "DESIGN.md section 4 C01",
        "technique": "deterministic whole-node simulation on a drawn storage engine; reference UTXO model over accepted blocks plus adversarial transactions driven through the validator on the engine's batch",
        "text": ("Exploration: seeded histories with Qi spends through the real mempool/worker/validator on memorydb, leveldb and pebble; every accepted block is checked against a UTXO model (spent once, owner-authorised with an independently verified signature, unlocked, nothing from nothing), "
                 "and the validator's verdict on adversarial transactions (double spends inside a tx / inside a block, wrong key, locked, overspend) is compared with the model on each engine."),
        "note": "Trusted: the model (150 lines) and btcec signature verification. Supply accounting of coinbase/conversion amounts is bounded by the ETX value only, not re-derived.",
    },
    "C12": {
        "engine": "S3-evmsim", "design_ref": "DESIGN.md section 4 C12",
        "technique": "deterministic simulation of transaction execution with frame-failure injection at every recorded interpreter step (gas cuts), explicit REVERT/INVALID, nested snapshots; world digest vs deep-copy reference model; exhaustive short snapshot/revert sequences",
        "text": "Fault enumeration inside each generated program (every depth-1 step boundary and inner-frame step becomes an out-of-gas cut) and exhaustive enumeration of short StateDB mutation/snapshot/revert sequences; exploration over programs. The digest covers every clause of the property including pending ETXs and batch-visible lockup records.",
        "note": "Three open known findings (suicide size counter not journaled; creation not reverted on code-store out-of-gas; lockup claim not undone on revert) - all consensus-changing to repair, so recorded rather than fixed.",
    },
    "C05": {
        "engine": "S3-evmsim", "design_ref": "DESIGN.md section 4 C05",
        "technique": "deterministic simulation of transaction execution with gas-cut fault injection; per-operation atomicity oracle and outbound-list model",
        "text": "Fault enumeration of cut points within generated programs reaching ETX / CONVERT / out-of-scope CALL / lockup precompile with malformed blobs, ineligible destinations, zero/overflowing amounts, insufficient balance or gas, on both sides of each fork; status, debit, ETX record and stack height are checked per operation and the receipt's outbound list against the model.",
        "note": "Open known findings: opETX debit-before-failure exits (two witnesses) and pre-fork uint256 wrap-around.",
    },
    "C02": {
        "engine": "S3-evmsim", "design_ref": "DESIGN.md section 4 C02",
        "technique": "deterministic simulation of transaction execution with gas-cut fault injection; conservation oracle over the committed trie",
        "text": "Exploration: for every pass (ample gas and every cut) the sum of all balances in the committed trie is compared with the protocol formula; the hard verdict is 'nothing created'.",
        "note": "Open known findings shared with C05/C12 (opETX debit without ETX, code-store out-of-gas, pre-fork overflow). System-level conservation across chains is not decided.",
    },
    "C13": {
        "engine": "S5-chainsim", "design_ref": "DESIGN.md section 4 C13",
        "technique": "deterministic whole-node simulation with miner lockup modes, owner-contract deployment and claims; reference ledger of lockups and unlock heights checked after every block",
        "text": "Exploration: seeded histories in which rewards are paid plainly (Quai and Qi, every lockup byte) or into contract-held lockups, accumulate within and across blocks and epochs, and are claimed early, late, twice, for open epochs and by non-owners, with forks and reorgs; a model ledger fed only by executed coinbase ETXs must equal the stored lockups, payouts and unlock heights.",
        "note": "Reward amounts themselves are not re-derived (taken from the honest block). Workshares arise only as uncles of harness-made forks.",
    },
    "C20": {
        "engine": "S5-chainsim", "design_ref": "DESIGN.md section 4 C20",
        "technique": "deterministic whole-node simulation with prime in the loop; per-conversion state machine checked over the recorded history (emitted -> repriced|refunded -> credited after the lock period)",
        "text": "Exploration: seeded mixes of both conversion directions inside one prime block, tight and loose slippage bounds, bursts, forks and reorgs, both sides of the conversion-discount fork; every conversion must have exactly one outcome with the stated amounts, heights and bounds.",
        "note": "One open known finding (historic side of ConversionSlipChangeBlock over-credits). Exchange-rate trajectories are frozen in these runs; the rate function itself is decided on both sides of every conversion-related fork and for rounding at unit boundaries by finite tables. The size of the flow discount is not constrained by the property and not checked.",
    },
    "C14": {
        "engine": "S5-chainsim", "design_ref": "DESIGN.md section 4 C14",
        "technique": "deterministic whole-node simulation; codec round-trip monitors (protobuf, typed RLP, JSON, rawdb) with field-by-field equality on every object that crosses the simulated wire, the databases and the JSON-RPC form, including receipts read back from the node's database",
        "text": "Exploration over the objects real runs produce (all transaction kinds, all block views, all three contexts): wire, disk and JSON round trips preserve hash, content and bytes; rewritten blocks never collide with the honest hash.",
        "note": "Eight codec defects found and repaired (five fix commits: header / work-object-header / access-tuple / Qi output JSON, Quai work nonce JSON, Qi work fields JSON, receipt RLP, QuaiTx RLP); two open known findings (receipt bloom of ETX logs, Qi typed-RLP without work fields). Objects are those runs produce plus work-field presence copies.",
    },
    "C03": {
        "engine": "S5-chainsim", "design_ref": "DESIGN.md section 4 C03",
        "technique": "deterministic whole-node simulation; in-flight rewriting of every client-signed transaction (single signed field / signature value / chain id) checked against sender recovery, the live pool and the node's Qi validation",
        "text": "Exploration over the transactions real runs sign: no single-field rewrite, signature edge value or foreign chain id keeps the original sender; the sender cache is chain-id safe; Qi transactions are bound to their inputs, outputs, data and chain id.",
        "note": "The signature algebra itself is a pure function and is only sampled (edge table incl. recovery ids equal modulo 2^8 / 2^32 / 2^64, foreign chain ids incl. 0); stated in the evidence.",
    },
    "C15": {
        "engine": "S5-chainsim", "design_ref": "DESIGN.md section 4 C15",
        "technique": "deterministic simulation with frame-corruption faults on real traffic through the production decode/validation pipeline (no-panic oracle) plus a step tracer that prices every memory expansion against the gas charged",
        "text": ("Exploration: corrupted block, header and transaction frames derived from the traffic of seeded whole-node runs are fed to the production receive path; and seeded EVM programs with gas cuts are traced step by step to check that interpreter memory only grows through steps charged at least the expansion price."),
        "note": "One defect repaired (pool panic on a crafted Qi transaction), one open known finding (ETX memory window is not priced). AuxPoW donor frames are fed through the parser sequence of the share validator (the validator wrapper itself is not run). Request/response frames, RLP and JSON argument decoders and the memory-proportionality clause are not decided - stated in the evidence.",
    },
}
