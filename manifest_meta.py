"""Human-written texts for MANIFEST.json."""
ENGINES = [
    {"name": "S2-triesim", "path": "/verif/sim/triesim", "serves_properties": ["C18"],
     "kind_free_text": "seeded trie histories with restart / crash-at-write-prefix / proof-corruption faults against a map model with per-root snapshots"},
    {"name": "S1-dbsim", "path": "/verif/sim/dbsim", "serves_properties": ["C17"],
     "kind_free_text": "seeded lock-step simulation of the three storage engines and the rawdb wrappers against a map+batch reference model, with reopen / held-iterator / cross-engine replay faults (rapid tape = replay file)"},
]
NOTES = ("Technique family: deterministic simulation with fault injection. One integer (VERIF_SEED) -> per-chunk rapid seeds -> every generated operation, fault and schedule choice. "
         "Violations are minimised by rapid's shrinker and stored under /verif/replays as <id>.json + <id>.fail (bit-exact tape). Exit 2 = infrastructure trouble, never a violation. "
         "Known findings: /verif/known_findings.json.")
NOT_APPLICABLE = {}
META = {
    "C17": {
        "engine": "S1-dbsim", "design_ref": "DESIGN.md section 4 C17, section 2.6",
        "technique": "deterministic simulation: seeded operation/fault histories in lock-step on all engines vs. reference model (rapid tape, shrinking, replay)",
        "text": ("Exploration: thousands (quick) to hundreds of thousands (thorough) of seeded histories of database operations, including close/reopen between any two operations, iterators held open across writes, "
                 "and batches replayed into another engine, are applied in lock-step to memorydb, leveldb, pebble and the rawdb table/nofreezedb wrappers and compared op-by-op with a map+ordered-batch model. "
                 "Sampling, not proof; right level because the property quantifies over all op histories and backends and the interesting failures (pending view, prefix upper bounds, snapshot iterators) need specific short sequences that a seeded search with shrinking finds and minimises."),
        "note": "Trusted: the reference model (60 lines), goleveldb/pebble themselves beyond what the histories exercise; power-loss durability is not part of this check (C11).",
    },
    "C18": {
        "engine": "S2-triesim", "design_ref": "DESIGN.md section 4 C18",
        "technique": "deterministic simulation: seeded trie operation histories with restart, crash-prefix and proof-corruption faults vs. reference model (rapid tape, shrinking, replay)",
        "text": ("Exploration: seeded histories of trie operations interleaved with commits, cache flushes, restarts over the same disk, crashes at every drawn prefix of a disk commit's write log, and corrupted proofs; "
                 "after every op the real trie is compared with a map model (canonical root by three construction orders, reads, reopened roots, proofs, StackTrie vs full trie). "
                 "Sampling with shrinking; the order/history independence and crash clauses need specific short histories, which is what a seeded search finds."),
        "note": "Trusted: the map model and snapshot bookkeeping; keccak/rlp. Secure-trie key collisions cannot be steered.",
    },
}
