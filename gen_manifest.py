#!/usr/bin/env python3
"""Regenerates MANIFEST.json from registry.py + manifest_meta.py (kept valid at all times)."""
import json, os, sys
ROOT = os.path.dirname(os.path.abspath(__file__))
sys.path.insert(0, ROOT)
from registry import REG
from manifest_meta import META, NOT_APPLICABLE, ENGINES, NOTES

props = [json.loads(l)["id"] for l in open(os.path.join(ROOT, "properties.jsonl"))]
checks = []
for pid in props:
    if pid not in REG or pid not in META:
        continue
    m = META[pid]
    c = {
        "property_id": pid,
        "quick_cmd": "./vcheck run -p %s -t quick" % pid,
        "thorough_cmd": "./vcheck run -p %s -t thorough" % pid,
        "evidence_file": "/verif/evidence/%s.json" % pid,
        "replay_cmd_template": "./vcheck replay {path}",
        "engine": m["engine"],
        "level_claimed": {"category": REG[pid]["level"], "text": m["text"], "design_ref": m["design_ref"]},
        "level_note": m["note"],
        "technique": m["technique"],
    }
    checks.append(c)
na = [{"property_id": p, "reason": NOT_APPLICABLE.get(p, "not claimed: no check for this property has been built and validated yet (see DESIGN.md section 8)")} for p in props if p not in {c["property_id"] for c in checks}]
man = {
    "version": 1,
    "setup_cmd": "cd /verif && ./build.sh",
    "hooks": {
        "guard": "verif",
        "enable": "go1.26.8 test -tags verif -overlay <generated per run by vcheck from /verif/overlay and tools/rewrite> (no hook source is committed in /repo; overlay files carry //go:build verif)",
        "baseline_off_cmd": "for m in $(cat /w/out/gomods.txt); do MF=$(cd /repo/$m && . /w/out/goenv.sh && gomodflag); (cd /repo/$m && go test $MF -json -vet=off -count=1 -timeout 25m ./...); done",
        "source_commits": [],
        "add_only": True,
    },
    "engines": ENGINES,
    "checks": checks,
    "notes": NOTES,
    "not_applicable": na,
}
json.dump(man, open(os.path.join(ROOT, "MANIFEST.json"), "w"), indent=1)
print("MANIFEST.json: %d checks, %d not claimed" % (len(checks), len(na)))
