//go:build verif

// Hook points of the controlled-scheduler harnesses (DESIGN §2.4) and read-only
// accessors to the transaction pool's unexported state.  This file is added to
// package core by the build overlay only; it is never part of a shipped build.
//
// The functions verifLock, verifYield, verifGo, verifNow, ... are what the
// source rewriter (/verif/tools/rewrite) puts into rewritten copies of
// tx_pool.go.  Without an installed scheduler (VerifInstall(nil), the default)
// every one of them behaves exactly like the code it replaced: Lock blocks in
// the runtime, `go` starts a plain goroutine, time is the time package, map
// iteration is the runtime's.  This file is compiled into every harness; only
// poolsim installs a scheduler.
package core

import (
	"fmt"
	"math/big"
	"reflect"
	"sort"
	"sync"
	"sync/atomic"
	"time"

	"github.com/dominant-strategies/go-quai/common"
	"github.com/dominant-strategies/go-quai/core/types"
)

// VerifHooks is the scheduler interface.  Every field must be set.
type VerifHooks struct {
	// Yield parks the calling goroutine until the scheduler releases it.  kind is
	// one of lock, rlock, send, recv, select, selectnb, wait, go.
	Yield func(site, kind string)
	// Resume is called right after a (possibly blocking) channel operation or
	// WaitGroup.Wait completed.
	Resume func(site string)
	// Select is called in front of a select statement with two or more communication
	// cases: it yields and then returns the index of the case that is to fire, chosen
	// among the cases that are ready now, or -1 if none is ready (all cases stay
	// enabled: the select blocks, or takes its default clause).
	Select func(site, kind string, chans []any, send []bool) int
	// Acquire obtains the lock (write or read side) by try-locking; a goroutine
	// that cannot get it parks inside the scheduler ("blocked on l").
	Acquire func(l any, write bool, site string)
	// Go starts fn as a named, controlled goroutine.
	Go func(site string, fn func())
	// MapOrder returns the order (a permutation of 0..n-1 over the SORTED keys) in
	// which a `range` over a pool map visits its n keys.
	MapOrder func(n int, site string) []int
	Now      func() time.Time
	// KnownRace brackets a statement listed under knownRaces in rewrite.json (an open, recorded data-race finding).
	KnownRace func(id string, begin bool)
	// NewTicker registers a ticker that fires only when the scheduler says so.
	NewTicker func(d time.Duration, site string) (c <-chan time.Time, stop func(), reset func(time.Duration))
	// NewTimer registers a one-shot timer (same contract); f may be nil.
	NewTimer func(d time.Duration, f func(), site string) (c <-chan time.Time, stop func() bool, reset func(time.Duration) bool)
	Sleep    func(d time.Duration, site string)
}

var verifHooks atomic.Pointer[VerifHooks]

// VerifInstall installs (or, with nil, removes) the scheduler.
func VerifInstall(h *VerifHooks) { verifHooks.Store(h) }

type verifLocker interface {
	Lock()
	Unlock()
	TryLock() bool
}
type verifRLocker interface {
	RLock()
	RUnlock()
	TryRLock() bool
}

// verifLock replaces `X.Lock()`:  yield;  for !X.TryLock() { blockedOn(&X) }.
func verifLock(l verifLocker, site string) {
	h := verifHooks.Load()
	if h == nil {
		l.Lock()
		return
	}
	h.Yield(site, "lock")
	h.Acquire(l, true, site)
}

// verifRLock replaces `X.RLock()`.
func verifRLock(l verifRLocker, site string) {
	h := verifHooks.Load()
	if h == nil {
		l.RLock()
		return
	}
	h.Yield(site, "rlock")
	h.Acquire(l, false, site)
}

func verifYield(site, kind string) {
	if h := verifHooks.Load(); h != nil {
		h.Yield(site, kind)
	}
}

func verifKnownRace(id string, begin bool) {
	if h := verifHooks.Load(); h != nil && h.KnownRace != nil {
		h.KnownRace(id, begin)
	}
}

func verifResume(site string) {
	if h := verifHooks.Load(); h != nil {
		h.Resume(site)
	}
}

// VerifSel is the scheduler's decision for one execution of a select statement.
type VerifSel struct{ chosen int }

func verifSelect(site, kind string, chans []any, send []bool) *VerifSel {
	h := verifHooks.Load()
	if h == nil {
		return nil
	}
	return &VerifSel{chosen: h.Select(site, kind, chans, send)}
}

// verifCase gates one case of a select: the channel itself if the case is enabled, a nil channel (never ready) otherwise.
func verifCase[C any](s *VerifSel, i int, ch C) C {
	if s == nil || s.chosen < 0 || s.chosen == i {
		return ch
	}
	var zero C
	return zero
}

// verifAfter wraps a receive expression that is not a statement of its own
// (`return <-ch`): the receive is evaluated first, then the goroutine reports back.
func verifAfter[T any](v T, site string) T {
	verifResume(site)
	return v
}

func verifGo(site string, fn func()) {
	if h := verifHooks.Load(); h != nil {
		h.Go(site, fn)
		return
	}
	go fn()
}

// verifMapKeys replaces the key sequence of `for k := range m`.
func verifMapKeys[K comparable, V any](m map[K]V, site string) []K {
	keys := make([]K, 0, len(m))
	for k := range m {
		keys = append(keys, k)
	}
	h := verifHooks.Load()
	if h == nil || len(keys) < 2 {
		return keys
	}
	sort.Slice(keys, func(i, j int) bool { return verifKeyLess(reflect.ValueOf(keys[i]), reflect.ValueOf(keys[j])) })
	perm := h.MapOrder(len(keys), site)
	out := make([]K, len(keys))
	for i, p := range perm {
		out[i] = keys[p]
	}
	return out
}

func verifKeyLess(a, b reflect.Value) bool {
	switch a.Kind() {
	case reflect.Array:
		for i := 0; i < a.Len(); i++ {
			x, y := a.Index(i).Uint(), b.Index(i).Uint()
			if x != y {
				return x < y
			}
		}
		return false
	case reflect.String:
		return a.String() < b.String()
	case reflect.Uint, reflect.Uint8, reflect.Uint16, reflect.Uint32, reflect.Uint64:
		return a.Uint() < b.Uint()
	case reflect.Int, reflect.Int8, reflect.Int16, reflect.Int32, reflect.Int64:
		return a.Int() < b.Int()
	}
	panic("verifMapKeys: unsupported key kind " + a.Kind().String())
}

func verifNow() time.Time {
	if h := verifHooks.Load(); h != nil {
		return h.Now()
	}
	return time.Now()
}
func verifSince(t time.Time) time.Duration { return verifNow().Sub(t) }
func verifUntil(t time.Time) time.Duration { return t.Sub(verifNow()) }

// VerifTicker stands in for *time.Ticker in rewritten files.
type VerifTicker struct {
	C     <-chan time.Time
	stop  func()
	reset func(time.Duration)
}

func (t *VerifTicker) Stop()                 { t.stop() }
func (t *VerifTicker) Reset(d time.Duration) { t.reset(d) }

func verifNewTicker(d time.Duration, site string) *VerifTicker {
	if h := verifHooks.Load(); h != nil {
		c, stop, reset := h.NewTicker(d, site)
		return &VerifTicker{C: c, stop: stop, reset: reset}
	}
	t := time.NewTicker(d)
	return &VerifTicker{C: t.C, stop: t.Stop, reset: t.Reset}
}
func verifTick(d time.Duration, site string) <-chan time.Time { return verifNewTicker(d, site).C }

// VerifTimer stands in for *time.Timer in rewritten files.
type VerifTimer struct {
	C     <-chan time.Time
	stop  func() bool
	reset func(time.Duration) bool
}

func (t *VerifTimer) Stop() bool                 { return t.stop() }
func (t *VerifTimer) Reset(d time.Duration) bool { return t.reset(d) }

func verifNewTimer(d time.Duration, site string) *VerifTimer {
	if h := verifHooks.Load(); h != nil {
		c, stop, reset := h.NewTimer(d, nil, site)
		return &VerifTimer{C: c, stop: stop, reset: reset}
	}
	t := time.NewTimer(d)
	return &VerifTimer{C: t.C, stop: t.Stop, reset: t.Reset}
}
func verifAfterT(d time.Duration, site string) <-chan time.Time { return verifNewTimer(d, site).C }
func verifAfterFunc(d time.Duration, f func(), site string) *VerifTimer {
	if h := verifHooks.Load(); h != nil {
		c, stop, reset := h.NewTimer(d, f, site)
		return &VerifTimer{C: c, stop: stop, reset: reset}
	}
	t := time.AfterFunc(d, f)
	return &VerifTimer{stop: t.Stop, reset: t.Reset}
}
func verifSleep(d time.Duration, site string) {
	if h := verifHooks.Load(); h != nil {
		h.Sleep(d, site)
		return
	}
	time.Sleep(d)
}

// ---------------------------------------------------------------- accessors

// VerifDisableSenderCacher makes senderCacher.recover a no-op: the package-level
// cacher's worker goroutines were started at process init, outside any
// simulation, and would populate transactions' sender caches at uncontrolled
// moments.  The pool then recovers senders synchronously (types.Sender), which
// is what it does anyway for every transaction the cacher has not reached yet.
func VerifDisableSenderCacher() {
	senderCacher = &txSenderCacher{threads: 0, tasks: make(chan *txSenderCacherRequest, 1)}
}

// VerifTx is one pool transaction as seen by the oracle.
type VerifTx struct {
	Hash  common.Hash
	From  common.InternalAddress
	Nonce uint64
	Price *big.Int
	Cost  *big.Int
	Gas   uint64
	Local bool // IsLocal() flag of the object
	Time  time.Time
	Tx    *types.Transaction
}

// VerifView is a snapshot of the pool's internal containers.  It must be taken
// while no pool goroutine runs and pool.mu is free.
type VerifView struct {
	Pending map[common.InternalAddress][]VerifTx // nonce-sorted
	Queue   map[common.InternalAddress][]VerifTx
	// EmptyPending / EmptyQueue: accounts that have a list object with no transactions.
	EmptyPending, EmptyQueue []common.InternalAddress
	Locals, Remotes          map[common.Hash]VerifTx // the `all` lookup
	Slots                    int
	Urgent, Floating         []common.Hash // priced heaps (may hold stale entries)
	Stales                   int
	Beats                    map[common.InternalAddress]time.Time
	LocalAccounts            map[common.InternalAddress]bool
	PendingNonce             map[common.InternalAddress]uint64 // only entries present in the noncer cache
	QiPool                   []common.Hash                     // oldest first
	QiReceived               map[common.Hash]time.Time
	GasPrice                 *big.Int
	CurrentMaxGas            uint64
	ChanLens                 map[string]int
	Config                   TxPoolConfig
	// StaleCaches: lists whose sorted-read cache (what Content / Pending / the miner's view return) is populated but does
	// not hold exactly the list's transactions in nonce order.
	StaleCaches []string
}

func verifCacheStale(l *txList) string {
	c := l.txs.cache
	if c == nil {
		return ""
	}
	if len(c) != len(l.txs.items) {
		return fmt.Sprintf("cache has %d transactions, the list %d", len(c), len(l.txs.items))
	}
	for i, tx := range c {
		it, ok := l.txs.items[tx.Nonce()]
		if !ok || it.Hash() != tx.Hash() {
			return fmt.Sprintf("cache entry %d (nonce %d, %x) is not the list's transaction of that nonce", i, tx.Nonce(), tx.Hash().Bytes()[:4])
		}
		if i > 0 && c[i-1].Nonce() >= tx.Nonce() {
			return fmt.Sprintf("cache is not in nonce order at %d", i)
		}
	}
	return ""
}

func (pool *TxPool) verifTx(tx *types.Transaction) VerifTx {
	v := VerifTx{Hash: tx.Hash(), Nonce: tx.Nonce(), Price: tx.GasPrice(), Cost: tx.Cost(), Gas: tx.Gas(), Local: tx.IsLocal(), Time: tx.Time(), Tx: tx}
	if from, err := types.Sender(pool.signer, tx); err == nil {
		if in, err := from.InternalAndQuaiAddress(); err == nil {
			v.From = in
		}
	}
	return v
}

func (pool *TxPool) verifList(l *txList) []VerifTx {
	out := make([]VerifTx, 0, len(l.txs.items))
	for _, tx := range l.txs.items {
		out = append(out, pool.verifTx(tx))
	}
	sort.Slice(out, func(i, j int) bool { return out[i].Nonce < out[j].Nonce })
	return out
}

// VerifMuFree reports whether pool.mu can be write-locked right now.
func (pool *TxPool) VerifMuFree() bool {
	if pool.mu.TryLock() {
		pool.mu.Unlock()
		return true
	}
	return false
}

// VerifMu returns the address of pool.mu (lock identity for the scheduler).
func (pool *TxPool) VerifMu() any { return &pool.mu }

// VerifSlots returns the number of slots in use (caller holds pool.mu or the pool is quiescent).
func (pool *TxPool) VerifSlots() int { return pool.all.slots }

// VerifSlot returns the transaction the pool holds for (addr, nonce), if any, and whether it is pending.
func (pool *TxPool) VerifSlot(addr common.InternalAddress, nonce uint64) (tx *types.Transaction, pending bool) {
	if l := pool.pending[addr]; l != nil {
		if t := l.txs.items[nonce]; t != nil {
			return t, true
		}
	}
	if l := pool.queue[addr]; l != nil {
		if t := l.txs.items[nonce]; t != nil {
			return t, false
		}
	}
	return nil, false
}

// VerifView returns nil if pool.mu is held.  It takes pool.mu itself, so the caller is
// ordered after every critical section of the pool (also for the race detector).
func (pool *TxPool) VerifView() *VerifView {
	if !pool.mu.TryLock() {
		return nil
	}
	defer pool.mu.Unlock()
	v := &VerifView{
		Pending: map[common.InternalAddress][]VerifTx{}, Queue: map[common.InternalAddress][]VerifTx{},
		Locals: map[common.Hash]VerifTx{}, Remotes: map[common.Hash]VerifTx{},
		Beats: map[common.InternalAddress]time.Time{}, LocalAccounts: map[common.InternalAddress]bool{},
		PendingNonce: map[common.InternalAddress]uint64{}, QiReceived: map[common.Hash]time.Time{},
		ChanLens: map[string]int{}, Config: pool.config,
	}
	for a, l := range pool.pending {
		if d := verifCacheStale(l); d != "" {
			v.StaleCaches = append(v.StaleCaches, fmt.Sprintf("pending %x: %s", a.Bytes()[:3], d))
		}
		if len(l.txs.items) == 0 {
			v.EmptyPending = append(v.EmptyPending, a)
			continue
		}
		v.Pending[a] = pool.verifList(l)
	}
	for a, l := range pool.queue {
		if d := verifCacheStale(l); d != "" {
			v.StaleCaches = append(v.StaleCaches, fmt.Sprintf("queue %x: %s", a.Bytes()[:3], d))
		}
		if len(l.txs.items) == 0 {
			v.EmptyQueue = append(v.EmptyQueue, a)
			continue
		}
		v.Queue[a] = pool.verifList(l)
	}
	sort.Strings(v.StaleCaches)
	for h, tx := range pool.all.locals {
		v.Locals[h] = pool.verifTx(tx)
	}
	for h, tx := range pool.all.remotes {
		v.Remotes[h] = pool.verifTx(tx)
	}
	v.Slots = pool.all.slots
	for _, tx := range pool.priced.urgent.list {
		v.Urgent = append(v.Urgent, tx.Hash())
	}
	for _, tx := range pool.priced.floating.list {
		v.Floating = append(v.Floating, tx.Hash())
	}
	v.Stales = pool.priced.stales
	for a, t := range pool.beats {
		v.Beats[a] = t
	}
	for a := range pool.locals.accounts {
		v.LocalAccounts[a] = true
	}
	if pool.pendingNonces != nil {
		for _, a := range pool.pendingNonces.nonces.Keys() {
			if n, ok := pool.pendingNonces.nonces.Peek(a); ok {
				v.PendingNonce[a] = n
			}
		}
	}
	for _, h := range pool.qiPool.Keys() {
		v.QiPool = append(v.QiPool, h)
		if e, ok := pool.qiPool.Peek(h); ok {
			v.QiReceived[h] = e.Received()
		}
	}
	v.GasPrice = new(big.Int).Set(pool.gasPrice)
	v.CurrentMaxGas = pool.currentMaxGas
	v.ChanLens["chainHeadCh"] = len(pool.chainHeadCh)
	v.ChanLens["reqResetCh"] = len(pool.reqResetCh)
	v.ChanLens["reqPromoteCh"] = len(pool.reqPromoteCh)
	v.ChanLens["queueTxEventCh"] = len(pool.queueTxEventCh)
	v.ChanLens["reorgDoneCh"] = len(pool.reorgDoneCh)
	v.ChanLens["sendersCh"] = len(pool.sendersCh)
	v.ChanLens["feesCh"] = len(pool.feesCh)
	v.ChanLens["invalidQiTxsCh"] = len(pool.invalidQiTxsCh)
	return v
}

// VerifStateNonce / VerifStateBalance read the state the pool currently validates against.
func (pool *TxPool) VerifStateNonce(a common.InternalAddress) uint64 {
	return pool.currentState.GetNonce(a)
}
func (pool *TxPool) VerifStateBalance(a common.InternalAddress) *big.Int {
	return pool.currentState.GetBalance(a)
}

// VerifSenderCached reports whether the senders LRU knows the hash.
func (pool *TxPool) VerifSenderCached(h common.Hash) bool { return pool.senders.Contains(h) }

// VerifForceShutdown closes the pool's shutdown channel (cleanup of an aborted run only).
func (pool *TxPool) VerifForceShutdown() {
	defer func() { recover() }()
	close(pool.reorgShutdownCh)
}

var _ = sync.Mutex{}
