//go:build verif

// Accessors for the simulation harnesses in /verif (added to package core by the
// build overlay only; never part of a shipped build).
package core

import (
	"bytes"
	"sort"
	"sync"

	"github.com/dominant-strategies/go-quai/common"
	"github.com/dominant-strategies/go-quai/core/types"
)

// VerifFillPending performs one iteration of the ticker branch of
// worker.asyncStateLoop synchronously: build a pending header filled from the
// tx pool on the current block and publish it on the async pending-header feed.
func (sl *Slice) VerifFillPending() error {
	w := sl.miner.worker
	wo := w.hc.CurrentBlock()
	w.hc.headermu.Lock()
	defer w.hc.headermu.Unlock()
	header, err := w.GeneratePendingHeader(wo, true)
	if err != nil {
		return err
	}
	w.asyncPhFeed.Send(header)
	return nil
}

// verifSortUncles is the map-order seam used by the patched environment.unclelist.
func verifSortUncles(uncles []*types.WorkObjectHeader) {
	sort.Slice(uncles, func(i, j int) bool {
		return bytes.Compare(uncles[i].Hash().Bytes(), uncles[j].Hash().Bytes()) < 0
	})
}

// VerifProcAppendQueue performs one iteration of the ticker branch of Core.updateAppendQueue.
func (c *Core) VerifProcAppendQueue() { c.procAppendQueue() }

// verifSortQiTxs is the map-order seam used by the patched worker.fillTransactions.
func verifSortQiTxs(txs []*types.TxWithMinerFee) {
	sort.Slice(txs, func(i, j int) bool {
		return bytes.Compare(txs[i].Tx().Hash().Bytes(), txs[j].Tx().Hash().Bytes()) < 0
	})
}

// VerifSetLockupContract changes the lockup contract the worker names in the data of the headers it builds
// (normally fixed at start-up from the miner configuration).
func (sl *Slice) VerifSetLockupContract(addr *common.Address) {
	sl.miner.worker.lockupContractAddress = addr
}

// VerifPurgeOrderCache empties the order cache (what a restart or an eviction does), so that the next CalcOrder computes afresh.
func (hc *HeaderChain) VerifPurgeOrderCache() { hc.calcOrderCache.Purge() }

// verifMinerData holds, per worker, the bytes a miner that assembles its own header data puts after the lockup byte
// (the node's own worker only ever writes nothing or a lockup-contract address there).
var verifMinerData sync.Map

// VerifSetMinerData sets (nil: clears) the bytes that follow the lockup byte in the data of the headers the worker builds.
func (sl *Slice) VerifSetMinerData(extra []byte) {
	if extra == nil {
		verifMinerData.Delete(sl.miner.worker)
		return
	}
	verifMinerData.Store(sl.miner.worker, append([]byte(nil), extra...))
}

func verifMinerDataFor(w *worker, data []byte) []byte {
	if v, ok := verifMinerData.Load(w); ok && len(data) > 0 {
		return append(append([]byte(nil), data[0]), v.([]byte)...)
	}
	return data
}
